"""Per-property configuration of the driver: which harness package and tests serve a property, budgets."""

def unit(pkg, run, quick, thorough, **kw):
    u = {"pkg": pkg, "run": run, "quick": quick, "thorough": thorough}
    u.update(kw)
    return u

def tier(cases, shards=8, timeout=600, **kw):
    d = {"cases": cases, "shards": shards, "timeout": timeout}
    d.update(kw)
    return d

PROPS = {
    "C14": {
        "rule": "cases: scalar values from the boundary-biased generator gen.Int(n) (tiny, n-1.., 2^k+-1, bit 255 forced, limb "
                "patterns, windows, sparse, short, uniform), built either through Decode (canonical domain) or by writing "
                "Montgomery limbs; plus fixed boundary scalars. Non-trivial: canonical value > 1. Distinct: by hash of the case.",
        "units": [unit("props", "^TestC14", tier(160000, 8, 300), tier(8000000, 16, 3000))],
        "checks_expected": ["C14/bits"],
    },
    "C13": {
        "rule": "compare: ordered scalar pairs by relation class (equal, same value in the other domain, adjacent, one canonical limb "
                "changed, one Montgomery limb changed, random) from the boundary-biased scalar generator; non-trivial = the two values "
                "differ. cselect: condition words from {0,1,2,3,4,0xff,2^31,2^32,2^63,2^64-1,...} or uniform, operands in both domains, "
                "nil operands, receiver aliasing an operand; non-trivial = cond not in {0,1}, u != v, no nil. Distinct: by case hash.",
        "units": [unit("props", "^TestC13", tier(160000, 8, 300), tier(8000000, 16, 3000))],
        "checks_expected": ["C13/compare", "C13/cselect"],
    },
    "C06": {
        "rule": "cases (op, s, t, alias, nil, u64): op from {add,sub,mul,square,invert,pow,setuint64,zero,one,minusone,set,copy}; "
                "operands from the boundary-biased generator in canonical (via Decode) and Montgomery-limb domains; 10% aliased, 10% nil. "
                "Oracle math/big mod n plus stored-limbs canonicity. Non-trivial = an operand (or the uint64) is > 1. Distinct by case hash.",
        "units": [unit("props", "^TestC06", tier(120000, 8, 300), tier(6000000, 16, 3000), fuzz=["FuzzScalarOps"])],
        "checks_expected": ["C06/ops"],
    },
    "C07": {
        "rule": "decode: byte strings by class (canonical values, n+-d, n+-2^k, n with one limb replaced, high values, wrong lengths "
                "derived from valid encodings, random 0..80 bytes, random 32 bytes) through Decode/UnmarshalBinary/DecodeHex (hex: "
                "upper/mixed case, odd length, non-hex rune); non-trivial = 32-byte input within 2^128 of n or differing from n in one "
                "limb, or a non-empty wrong length, or malformed hex. encode: scalars in both domains; non-trivial = value > 1.",
        "units": [unit("props", "^TestC07", tier(120000, 8, 300), tier(6000000, 16, 3000), fuzz=["FuzzScalarDecode"])],
        "checks_expected": ["C07/decode", "C07/encode"],
    },
    "C01": {
        "rule": "reference: (point spec, k) with the point from {identity, G, [j]G, lift_x(x) for boundary-biased x, endomorphism image, "
                "negation} given Z=1 through a decoder and then re-represented by 0..2 value-preserving recipe steps (P+O, O+P, P-O, "
                "(P+Q)-Q, 2P-P, Decode(Encode), Copy/Set, white-box rescale by lambda, identity recipes P-P, [0]P, [k]P+[n-k]P, O-O, "
                "(0:Y:0)); k from the boundary-biased generator; oracle = affine double-and-add in the model on the value denoted by the "
                "raw coordinates. Non-trivial = k > 1 and P != O (nil-scalar cases also count). kfold: k in 0..64 against literal k-fold "
                "sums (model and implementation Add). metamorphic: [a]P+[n-a]P=O, [a]P+[b]P=[a+b]P, [a]([b]P)=[ab]P, [n-1]P=-P; "
                "non-trivial = a,b > 1 and P != O. Distinct by case hash.",
        "units": [unit("wb", "^TestC01", tier(2400, 8, 600), tier(120000, 16, 3400), overlay="access")],
        "checks_expected": ["C01/reference", "C01/kfold", "C01/metamorphic"],
    },
    "C02": {
        "rule": "cases (P spec, Q spec, op, relation class, aliasing): relation drawn first from {independent, equal, negation, "
                "p-identity, q-identity, both-identity, Q=2P, Q=-2P, shared y (endomorphism), argument is the receiver, nil}, each operand "
                "re-represented by 0..3 recipe steps (incl. white-box rescaling and identity forms (0:1:0),(0:-1:0),(0:Y3:0),(0:Y:0)); "
                "op from {Add, Subtract, Double, Negate}. Oracle: textbook affine law on the values denoted by the raw coordinates; result "
                "must be a valid projective point, argument value unchanged. Non-trivial = anything but 'independent, both Z=1, neither "
                "identity'. Distinct by case hash.",
        "units": [unit("wb", "^TestC02", tier(40000, 8, 600), tier(2000000, 16, 3400), overlay="access")],
        "checks_expected": ["C02/grouplaw"],
    },
    "C04": {
        "rule": "cases (point spec with 0..3 recipe steps, second recipe for the same base): Encode/EncodeUncompressed/XCoordinate/Hex/"
                "MarshalBinary compared with SEC1 bytes built by the model from the value the raw coordinates denote; both encodings "
                "round-trip through Decode (identity included); two representations encode identically. Non-trivial = identity, Z != 1, "
                "odd y, or any recipe step. Distinct by case hash.",
        "units": [unit("wb", "^TestC04", tier(24000, 8, 600), tier(1200000, 16, 3400), overlay="access")],
        "checks_expected": ["C04/encodings"],
    },
    "C05": {
        "rule": "ordered pairs by relation class {same element/different recipes, P vs -P (shared x), P vs endo(P) (shared y), endo+neg, "
                "unrelated, any vs identity, identity vs identity (all identity forms), same pointer}; oracle = model equality of the "
                "values denoted by the raw coordinates; symmetry, 0/1 range, IsIdentity. Non-trivial = shared coordinate, an identity "
                "involved, equal elements in different representations, or any recipe step. Distinct by case hash.",
        "units": [unit("wb", "^TestC05", tier(40000, 8, 600), tier(2000000, 16, 3400), overlay="access")],
        "checks_expected": ["C05/equal"],
    },
}
