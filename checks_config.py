"""Per-property configuration of the driver: which harness package and tests serve a property, budgets."""

def unit(pkg, run, quick, thorough, **kw):
    u = {"pkg": pkg, "run": run, "quick": quick, "thorough": thorough}
    u.update(kw)
    return u

def tier(cases, shards=8, timeout=600, **kw):
    d = {"cases": cases, "shards": shards, "timeout": timeout}
    d.update(kw)
    return d

PROPS = {
    "C14": {
        "rule": "cases: scalar values from the boundary-biased generator gen.Int(n) (tiny, n-1.., 2^k+-1, bit 255 forced, limb "
                "patterns, windows, sparse, short, uniform), built either through Decode (canonical domain) or by writing "
                "Montgomery limbs; plus fixed boundary scalars. Non-trivial: canonical value > 1. Distinct: by hash of the case.",
        "units": [unit("props", "^TestC14", tier(160000, 8, 300), tier(8000000, 16, 3000))],
        "checks_expected": ["C14/bits"],
    },
}
