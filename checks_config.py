"""Per-property configuration of the driver: which harness package and tests serve a property, budgets."""

def unit(pkg, run, quick, thorough, **kw):
    u = {"pkg": pkg, "run": run, "quick": quick, "thorough": thorough}
    u.update(kw)
    return u

def tier(cases, shards=8, timeout=600, **kw):
    d = {"cases": cases, "shards": shards, "timeout": timeout}
    d.update(kw)
    return d

PROPS = {
    "C14": {
        "rule": "cases: scalar values from the boundary-biased generator gen.Int(n) (tiny, n-1.., 2^k+-1, bit 255 forced, limb "
                "patterns, windows, sparse, short, uniform), built either through Decode (canonical domain) or by writing "
                "Montgomery limbs; plus fixed boundary scalars. Non-trivial: canonical value > 1. Distinct: by hash of the case.",
        "units": [unit("props", "^TestC14", tier(160000, 8, 300), tier(8000000, 16, 3000))],
        "checks_expected": ["C14/bits"],
    },
    "C13": {
        "rule": "compare: ordered scalar pairs by relation class (equal, same value in the other domain, adjacent, one canonical limb "
                "changed, one Montgomery limb changed, random) from the boundary-biased scalar generator; non-trivial = the two values "
                "differ. cselect: condition words from {0,1,2,3,4,0xff,2^31,2^32,2^63,2^64-1,...} or uniform, operands in both domains, "
                "nil operands, receiver aliasing an operand; non-trivial = cond not in {0,1}, u != v, no nil. Distinct: by case hash.",
        "units": [unit("props", "^TestC13", tier(160000, 8, 300), tier(8000000, 16, 3000))],
        "checks_expected": ["C13/compare", "C13/cselect"],
    },
    "C06": {
        "rule": "cases (op, s, t, alias, nil, u64): op from {add,sub,mul,square,invert,pow,setuint64,zero,one,minusone,set,copy}; "
                "operands from the boundary-biased generator in canonical (via Decode) and Montgomery-limb domains; 10% aliased, 10% nil. "
                "Oracle math/big mod n plus stored-limbs canonicity. Non-trivial = an operand (or the uint64) is > 1. Distinct by case hash.",
        "units": [unit("props", "^TestC06", tier(120000, 8, 300), tier(6000000, 16, 3000), fuzz=["FuzzScalarOps"])],
        "checks_expected": ["C06/ops"],
    },
    "C07": {
        "rule": "decode: byte strings by class (canonical values, n+-d, n+-2^k, n with one limb replaced, high values, wrong lengths "
                "derived from valid encodings, random 0..80 bytes, random 32 bytes) through Decode/UnmarshalBinary/DecodeHex (hex: "
                "upper/mixed case, odd length, non-hex rune); non-trivial = 32-byte input within 2^128 of n or differing from n in one "
                "limb, or a non-empty wrong length, or malformed hex. encode: scalars in both domains; non-trivial = value > 1.",
        "units": [unit("props", "^TestC07", tier(120000, 8, 300), tier(6000000, 16, 3000), fuzz=["FuzzScalarDecode"])],
        "checks_expected": ["C07/decode", "C07/encode"],
    },
}
