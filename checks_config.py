"""Per-property configuration of the driver: which harness package and tests serve a property, budgets."""

def unit(pkg, run, quick, thorough, **kw):
    u = {"pkg": pkg, "run": run, "quick": quick, "thorough": thorough}
    u.update(kw)
    return u

def tier(cases, shards=8, timeout=600, **kw):
    d = {"cases": cases, "shards": shards, "timeout": timeout}
    d.update(kw)
    return d

PROPS = {
    "C14": {
        "rule": "cases: scalar values from the boundary-biased generator gen.Int(n) (tiny, n-1.., 2^k+-1, bit 255 forced, limb "
                "patterns, windows, sparse, short, uniform), built either through Decode (canonical domain) or by writing "
                "Montgomery limbs; plus fixed boundary scalars. Non-trivial: canonical value > 1. Distinct: by hash of the case. A quarter of the scalars are used objects (object history), a sixth are results of arithmetic; fixed cases sweep the ~10^4 limb-pattern values in both domains; low limbs include quotient-aimed words. endurance: one API function called 2^20+2^10 (quick; slower functions 2^17 or 2^13) or 2^24+2^12 (thorough; slowest 2^18) times in one process from call number 0, every call compared with a pre-computed model result, operands rotating through a table of boundary and ordinary values (rotation offset = shard); all cases non-trivial.",
        "units": [unit("props", "^TestC14", tier(800000, 8, 900), tier(16000000, 16, 5400)),
                  unit("endure", "^TestEndure$", tier(1, 4, 900), tier(1, 2, 5400), env={"VERIF_ENDURE_PROP": "C14", "VERIF_SHARDS": "1", "VERIF_CASE_TIMEOUT_S": "3000"}, expects=["C14/endurance"])],
        "checks_expected": ["C14/bits"],
    },
    "C13": {
        "rule": "compare: ordered scalar pairs by relation class (equal, same value in the other domain, adjacent, one canonical limb "
                "changed, one Montgomery limb changed, random) from the boundary-biased scalar generator; non-trivial = the two values "
                "differ. cselect: condition words from {0,1,2,3,4,0xff,2^31,2^32,2^63,2^64-1,...} or uniform, operands in both domains, "
                "nil operands, receiver aliasing an operand; non-trivial = cond not in {0,1}, u != v, no nil. Distinct: by case hash. Additional relations: several canonical words perturbed (64/32-bit), the same value once plain and once as the result of an arithmetic operation (equal-computed); fixed cases: all ordered pairs of the 256 values with limbs in {0,1,2^63,2^64-1}, in both domains. after-failed-call: a scalar object whose last call failed (rejected 32-byte input in [n, 2^256) through the three decoders, CSelect with a nil operand) is compared with a fresh scalar holding the value it encodes to and with an unrelated scalar; all cases non-trivial. endurance: one API function called 2^20+2^10 (quick; slower functions 2^17 or 2^13) or 2^24+2^12 (thorough; slowest 2^18) times in one process from call number 0, every call compared with a pre-computed model result, operands rotating through a table of boundary and ordinary values (rotation offset = shard); all cases non-trivial.",
        "units": [unit("props", "^TestC13", tier(800000, 8, 900), tier(16000000, 16, 5400)),
                  unit("endure", "^TestEndure$", tier(1, 4, 900), tier(1, 2, 5400), env={"VERIF_ENDURE_PROP": "C13", "VERIF_SHARDS": "1", "VERIF_CASE_TIMEOUT_S": "3000"}, expects=["C13/endurance"])],
        "checks_expected": ["C13/compare", "C13/cselect", "C13/after-failed-call"],
    },
    "C06": {
        "rule": "cases (op, s, t, alias, nil, u64): op from {add,sub,mul,square,invert,pow,setuint64,zero,one,minusone,set,copy}; "
                "operands from the boundary-biased generator in canonical (via Decode) and Montgomery-limb domains; 10% aliased, 10% nil. "
                "Oracle math/big mod n plus stored-limbs canonicity. Non-trivial = an operand (or the uint64) is > 1. Distinct by case hash. mul and square get a larger share; a quarter of the operands are used objects, a sixth are results of arithmetic (provenance); fixed cases sweep all values whose Montgomery limbs come from ten limb patterns (about 10^4) through square and aliased mul/add. Random limbs are uniform (gen.U64). endurance: one API function called 2^20+2^10 (quick; slower functions 2^17 or 2^13) or 2^24+2^12 (thorough; slowest 2^18) times in one process from call number 0, every call compared with a pre-computed model result, operands rotating through a table of boundary and ordinary values (rotation offset = shard); all cases non-trivial.",
        "units": [unit("props", "^TestC06", tier(600000, 8, 900), tier(12000000, 16, 5400, fuzztime=90), fuzz=["FuzzScalarOps"]),
                  unit("endure", "^TestEndure$", tier(1, 4, 900), tier(1, 2, 5400), env={"VERIF_ENDURE_PROP": "C06", "VERIF_SHARDS": "1", "VERIF_CASE_TIMEOUT_S": "3000"}, expects=["C06/endurance"])],
        "checks_expected": ["C06/ops"],
    },
    "C07": {
        "rule": "decode: byte strings by class (canonical values, n+-d, n+-2^k, n with one limb replaced, high values, wrong lengths "
                "derived from valid encodings, random 0..80 bytes, random 32 bytes) through Decode/UnmarshalBinary/DecodeHex (hex: "
                "upper/mixed case, odd length, non-hex rune); non-trivial = 32-byte input within 2^128 of n or differing from n in one "
                "limb, or a non-empty wrong length, or malformed hex. encode: scalars in both domains; non-trivial = value > 1. Plus n with several 64- or 32-bit words perturbed at once; every decode case is evaluated twice in a row; the caller overwrites the slice returned by Order() before every case. endurance: one API function called 2^20+2^10 (quick; slower functions 2^17 or 2^13) or 2^24+2^12 (thorough; slowest 2^18) times in one process from call number 0, every call compared with a pre-computed model result, operands rotating through a table of boundary and ordinary values (rotation offset = shard); all cases non-trivial.",
        "units": [unit("props", "^TestC07", tier(600000, 8, 900), tier(12000000, 16, 5400, fuzztime=90), fuzz=["FuzzScalarDecode"]),
                  unit("endure", "^TestEndure$", tier(1, 4, 900), tier(1, 2, 5400), env={"VERIF_ENDURE_PROP": "C07", "VERIF_SHARDS": "1", "VERIF_CASE_TIMEOUT_S": "3000"}, expects=["C07/endurance"])],
        "checks_expected": ["C07/decode", "C07/encode"],
    },
    "C01": {
        "rule": "reference: (point spec, k) with the point from {identity, G, [j]G, lift_x(x) for boundary-biased x, endomorphism image, "
                "negation} given Z=1 through a decoder and then re-represented by 0..2 value-preserving recipe steps (P+O, O+P, P-O, "
                "(P+Q)-Q, 2P-P, Decode(Encode), Copy/Set, white-box rescale by lambda, identity recipes P-P, [0]P, [k]P+[n-k]P, O-O, "
                "(0:Y:0)); k from the boundary-biased generator; oracle = affine double-and-add in the model on the value denoted by the "
                "raw coordinates. Non-trivial = k > 1 and P != O (nil-scalar cases also count). kfold: k in 0..64 against literal k-fold "
                "sums (model and implementation Add). metamorphic: [a]P+[n-a]P=O, [a]P+[b]P=[a+b]P, [a]([b]P)=[ab]P, [n-1]P=-P; "
                "non-trivial = a,b > 1 and P != O. Distinct by case hash. Scalars come from gen.IntBoth (the boundary pattern may sit in the Montgomery form); in a third of the cases the scalar object was used before and received k through a mutator (object history). endurance: one API function called 2^20+2^10 (quick; slower functions 2^17 or 2^13) or 2^24+2^12 (thorough; slowest 2^18) times in one process from call number 0, every call compared with a pre-computed model result, operands rotating through a table of boundary and ordinary values (rotation offset = shard); all cases non-trivial.",
        "units": [unit("wb", "^TestC01", tier(12000, 8, 900), tier(480000, 16, 5400), overlay="access"),
                  unit("endure", "^TestEndure$", tier(1, 4, 900), tier(1, 2, 5400), env={"VERIF_ENDURE_PROP": "C01", "VERIF_SHARDS": "1", "VERIF_CASE_TIMEOUT_S": "3000"}, expects=["C01/endurance"])],
        "checks_expected": ["C01/reference", "C01/kfold", "C01/metamorphic"],
    },
    "C02": {
        "rule": "cases (P spec, Q spec, op, relation class, aliasing): relation drawn first from {independent, equal, negation, "
                "p-identity, q-identity, both-identity, Q=2P, Q=-2P, shared y (endomorphism), argument is the receiver, nil}, each operand "
                "re-represented by 0..3 recipe steps (incl. white-box rescaling and identity forms (0:1:0),(0:-1:0),(0:Y3:0),(0:Y:0)); "
                "op from {Add, Subtract, Double, Negate}. Oracle: textbook affine law on the values denoted by the raw coordinates; result "
                "must be a valid projective point, argument value unchanged. Non-trivial = anything but 'independent, both Z=1, neither "
                "identity'. Distinct by case hash. In a third of the add/sub/double cases one named intermediate of the formula (X1X2, Z1Z2, X1Z2+X2Z1, Y^2, Z^2, ...) is aimed at a boundary value by re-scaling an operand (white-box). endurance: one API function called 2^20+2^10 (quick; slower functions 2^17 or 2^13) or 2^24+2^12 (thorough; slowest 2^18) times in one process from call number 0, every call compared with a pre-computed model result, operands rotating through a table of boundary and ordinary values (rotation offset = shard); all cases non-trivial.",
        "units": [unit("wb", "^TestC02", tier(200000, 8, 900), tier(8000000, 16, 5400), overlay="access"),
                  unit("endure", "^TestEndure$", tier(1, 4, 900), tier(1, 2, 5400), env={"VERIF_ENDURE_PROP": "C02", "VERIF_SHARDS": "1", "VERIF_CASE_TIMEOUT_S": "3000"}, expects=["C02/endurance"])],
        "checks_expected": ["C02/grouplaw"],
    },
    "C04": {
        "rule": "cases (point spec with 0..3 recipe steps, second recipe for the same base): Encode/EncodeUncompressed/XCoordinate/Hex/"
                "MarshalBinary compared with SEC1 bytes built by the model from the value the raw coordinates denote; both encodings "
                "round-trip through Decode (identity included); two representations encode identically. Non-trivial = identity, Z != 1, "
                "odd y, or any recipe step. Distinct by case hash. Bases may be decoded into a used receiver object (Reuse) or into the element itself (selfdec); coordinate targets aim raw X/Y/Z (or their Montgomery limbs) at boundary patterns, incl. the word-wise neighbourhood of Montgomery-1; a receiver with Z != 1 also decodes the points whose affine x equals its raw X. endurance: one API function called 2^20+2^10 (quick; slower functions 2^17 or 2^13) or 2^24+2^12 (thorough; slowest 2^18) times in one process from call number 0, every call compared with a pre-computed model result, operands rotating through a table of boundary and ordinary values (rotation offset = shard); all cases non-trivial.",
        "units": [unit("wb", "^TestC04", tier(120000, 8, 900), tier(4800000, 16, 5400), overlay="access"),
                  unit("endure", "^TestEndure$", tier(1, 4, 900), tier(1, 2, 5400), env={"VERIF_ENDURE_PROP": "C04", "VERIF_SHARDS": "1", "VERIF_CASE_TIMEOUT_S": "3000"}, expects=["C04/endurance"])],
        "checks_expected": ["C04/encodings"],
    },
    "C05": {
        "rule": "ordered pairs by relation class {same element/different recipes, P vs -P (shared x), P vs endo(P) (shared y), endo+neg, "
                "unrelated, any vs identity, identity vs identity (all identity forms), same pointer}; oracle = model equality of the "
                "values denoted by the raw coordinates; symmetry, 0/1 range, IsIdentity. Non-trivial = shared coordinate, an identity "
                "involved, equal elements in different representations, or any recipe step. Distinct by case hash. Additional relation 'line' (distinct points with y_Q-y_P = m(x_Q-x_P), m in {+-1,+-2,+-3}); in a third of the cases one of the four cross products of the comparison is aimed at a boundary value by re-scaling (white-box). endurance: one API function called 2^20+2^10 (quick; slower functions 2^17 or 2^13) or 2^24+2^12 (thorough; slowest 2^18) times in one process from call number 0, every call compared with a pre-computed model result, operands rotating through a table of boundary and ordinary values (rotation offset = shard); all cases non-trivial.",
        "units": [unit("wb", "^TestC05", tier(200000, 8, 900), tier(8000000, 16, 5400), overlay="access"),
                  unit("endure", "^TestEndure$", tier(1, 4, 900), tier(1, 2, 5400), env={"VERIF_ENDURE_PROP": "C05", "VERIF_SHARDS": "1", "VERIF_CASE_TIMEOUT_S": "3000"}, expects=["C05/endurance"])],
        "checks_expected": ["C05/equal"],
    },
    "C03": {
        "rule": "byte strings by constructed class (valid compressed/uncompressed of random points, 00, prefix in {00..07,ff}, length "
                "+-1/truncated/extended, x or y in {p, p+1, p+d, 2^256-1, p-1}, x+p and y+p aliases of tiny on-curve coordinates, -y / "
                "y+-1 / bit-flipped y, off-curve x, all one-byte strings (exhaustive as fixed cases), random, prefix/length cross-overs "
                "and hybrid 06/07) x decoder in {Decode, DecodeCompressed, DecodeUncompressed, DecodeCoordinates, DecodeHex (case, odd "
                "length, non-hex rune), UnmarshalBinary} x prior receiver (point spec with recipe). Oracle: acceptance predicate written "
                "from the statement; accepted => exact point, rejected => error and unchanged receiver value. Non-trivial = every case "
                "except random strings of a length no decoder accepts. Distinct by case hash. Every case is evaluated twice in a row (verdicts must not depend on the previous input); fixed cases enumerate the word-wise neighbourhood of p as compressed x exhaustively (625 + 6561 strings) and all 256 one-byte strings. endurance: one API function called 2^20+2^10 (quick; slower functions 2^17 or 2^13) or 2^24+2^12 (thorough; slowest 2^18) times in one process from call number 0, every call compared with a pre-computed model result, operands rotating through a table of boundary and ordinary values (rotation offset = shard); all cases non-trivial.",
        "units": [unit("props", "^TestC03", tier(120000, 8, 900), tier(8000000, 16, 5400, fuzztime=120), fuzz=["FuzzElementDecode"], overlay="access"),
                  unit("endure", "^TestEndure$", tier(1, 4, 900), tier(1, 2, 5400), env={"VERIF_ENDURE_PROP": "C03", "VERIF_SHARDS": "1", "VERIF_CASE_TIMEOUT_S": "3000"}, expects=["C03/endurance"])],
        "checks_expected": ["C03/decoders"],
    },
    "C08": {
        "rule": "cases (fn in {HashToGroup, EncodeToGroup}, msg, DST, memory layouts): msg lengths around SHA-256 block boundaries "
                "{0,1,3,16,55,56,63,64,65,119,120,128,512} or random <= 600; DST lengths {16,255,256,257,1,300,254,1000,...} or random "
                "1..80 / 200..320, empty and nil DST; slices placed with interior offset and spare capacity. Oracle: independent RFC 9380 "
                "implementation (sum taken on secp256k1 after the isogeny), determinism, result decodes. Non-trivial = every case with a "
                "non-empty DST (classes of the model's branch trace are counted). Distinct by case hash. Fixed cases: exhaustive grid of message lengths 0..300 x 11 DST lengths (thorough: 0..1100 x 26). sequence: 2..6 calls from re-used caller buffers overwritten in place between calls. endurance: one API function called 2^20+2^10 (quick; slower functions 2^17 or 2^13) or 2^24+2^12 (thorough; slowest 2^18) times in one process from call number 0, every call compared with a pre-computed model result, operands rotating through a table of boundary and ordinary values (rotation offset = shard); all cases non-trivial.",
        "units": [unit("props", "^TestC08", tier(40000, 8, 900), tier(1600000, 16, 5400, fuzztime=120), fuzz=["FuzzHashToCurve"]),
                  unit("endure", "^TestEndure$", tier(1, 4, 900), tier(1, 2, 5400), env={"VERIF_ENDURE_PROP": "C08", "VERIF_SHARDS": "1", "VERIF_CASE_TIMEOUT_S": "3000"}, expects=["C08/endurance"])],
        "checks_expected": ["C08/hash2curve", "C08/sequence"],
    },
    "C09": {
        "rule": "hash2scalar: (msg, DST, layouts) as for C08 against OS2IP(expand_message_xmd(msg, DST, 48)) mod n of the model. "
                "widereduce: chosen 48-byte expander outputs (all ones, low/high half zero, high half all ones, multiples of n +-d, "
                "n..3n +-d, limb patterns, random) fed to internal/scalar.HashToFieldElement; non-trivial = high half non-zero and value "
                ">= n. expander (white-box): expandXMD(msg, DST, L) for L in {48, 96} against the model. Distinct by case hash. hash2scalar has the same length grid; sequence as for C08; widereduce also draws high parts equal to floor(2^k/c) +- d for c = 2^256 - n and fold-boundary limbs. endurance: one API function called 2^20+2^10 (quick; slower functions 2^17 or 2^13) or 2^24+2^12 (thorough; slowest 2^18) times in one process from call number 0, every call compared with a pre-computed model result, operands rotating through a table of boundary and ordinary values (rotation offset = shard); all cases non-trivial.",
        "units": [unit("props", "^TestC09", tier(80000, 8, 900), tier(3200000, 16, 5400), expects=["C09/hash2scalar", "C09/sequence"]),
                  unit("widepkg", "^TestC09", tier(800000, 8, 900), tier(16000000, 16, 5400), overlay="access", optional=True, expects=["C09/widereduce", "C09/expander"]),
                  unit("endure", "^TestEndure$", tier(1, 4, 900), tier(1, 2, 5400), env={"VERIF_ENDURE_PROP": "C09", "VERIF_SHARDS": "1", "VERIF_CASE_TIMEOUT_S": "3000"}, expects=["C09/endurance"])],
        "checks_expected": [],
    },
    "C11": {
        "rule": "sswu: field elements u from the boundary-biased generator in canonical and Montgomery domains, the three exceptional "
                "values 0 and +-sqrt(-1/Z) as fixed cases and with probability 1/16; oracle = RFC 9380 6.6.2 (non-straight-line) and "
                "E.1 isogeny in the model; also on-E', sgn0 rule, SSWU(-u) = -SSWU(u), image on secp256k1. isogeny (white-box): "
                "points of E' built by the model from boundary-biased abscissae, both signs. Non-trivial = all (duplicates removed by hash). A third of the sswu cases solve u so that tv1 = Z u^2 or tv2 = tv1^2 + tv1 takes a boundary pattern; a third of the isogeny cases aim 1/x_den or y_den. endurance: one API function called 2^20+2^10 (quick; slower functions 2^17 or 2^13) or 2^24+2^12 (thorough; slowest 2^18) times in one process from call number 0, every call compared with a pre-computed model result, operands rotating through a table of boundary and ordinary values (rotation offset = shard); all cases non-trivial.",
        "units": [unit("mappkg", "^TestC11", tier(80000, 8, 900), tier(3200000, 16, 5400), overlay="access"),
                  unit("endureint", "^TestEndure$", tier(1, 4, 900), tier(1, 2, 5400), env={"VERIF_ENDURE_PROP": "C11", "VERIF_SHARDS": "1", "VERIF_CASE_TIMEOUT_S": "3000"}, expects=["C11/endurance"], optional=True)],
        "checks_expected": ["C11/sswu", "C11/isogeny"],
    },
    "C12": {
        "rule": "ops: (op, u, v, prior output value, aliasing in {none, out=u, out=v, u=v, all}) with op in {add, sub, mul, square, neg, "
                "invert, sqrtratio, sgn0, iszero, equals, cmove(0|1), set, one, bytes}; operands boundary-biased in canonical and "
                "Montgomery-limb domains; equals also on pairs differing in exactly one Montgomery limb; sqrtratio with 1/4 forced "
                "squares. Oracle math/big mod p, canonicity of stored limbs. Non-trivial = an operand > 1. bytes: 32-byte strings around "
                "p (p+-d, one limb replaced, top of range) for the parser flag/value, 48-byte classes for the wide reduction. mul and square get a larger share; exhaustive sweep of the ~10^4 limb-pattern elements through square/neg/iszero/sgn0/bytes; parser fixed cases enumerate the word-wise neighbourhood of p; 48-byte classes include fold-boundary limbs and quotient-by-defect high parts. endurance: one API function called 2^20+2^10 (quick; slower functions 2^17 or 2^13) or 2^24+2^12 (thorough; slowest 2^18) times in one process from call number 0, every call compared with a pre-computed model result, operands rotating through a table of boundary and ordinary values (rotation offset = shard); all cases non-trivial.",
        "units": [unit("fieldpkg", "^TestC12", tier(800000, 8, 900), tier(16000000, 16, 5400, fuzztime=90), fuzz=["FuzzFieldOps"]),
                  unit("endureint", "^TestEndure$", tier(1, 4, 900), tier(1, 2, 5400), env={"VERIF_ENDURE_PROP": "C12", "VERIF_SHARDS": "1", "VERIF_CASE_TIMEOUT_S": "3000"}, expects=["C12/endurance"], optional=True)],
        "checks_expected": ["C12/ops", "C12/bytes"],
    },
    "C10": {
        "rule": "histories of 3..60 actions over a pool of 4 elements (initially O, G, 2G with Z != 1, -G) and 4 scalars (0, 1, n-1, "
                "2^255+12345); 21 element actions (Base, Identity, Set, Copy, mutate-a-copy, Add, Subtract, Double, Negate, Multiply, nil "
                "arguments, Decode of own encodings, Decode of generated possibly-invalid bytes, DecodeCoordinates of (mutated) "
                "coordinates, HashToGroup, EncodeToGroup) and 21 scalar actions (constants, SetUInt64, Set, Copy, arithmetic, Invert, "
                "Pow, Decode valid/invalid, HashToScalar, Random with scripted entropy, CSelect with any condition word, nil arguments); "
                "receiver/argument indices drawn independently (aliasing). After every step every variable is compared with the model "
                "(Encode, IsIdentity, IsZero, all Equal pairs, LessOrEqual pairs, curve membership). Non-trivial = history with >= 10 "
                "steps, >= 1 aliased call and >= 1 operation producing Z != 1. Distinct by hash of the whole history. Action e.repr changes the representation of an element without changing its value (API recipes; re-scaling and coordinate targets in the white-box build).",
        "units": [unit("props", "^TestC10", tier(12000, 8, 900), tier(480000, 16, 5400), overlay="access")],
        "checks_expected": ["C10/history", "C10/long-lived", "C10/many-objects", "C10/new-api"],
    },
    "C15": {
        "rule": "cases (call, arguments, layouts): call from 29 API functions in four groups - hashing (msg, DST), decoders (input "
                "slice), slice-returning (Encode, EncodeUncompressed, XCoordinate, MarshalBinary, Order), pointer-argument methods; input "
                "slices placed inside canary-filled buffers with interior offset in {0,1,5,32} and spare capacity in {0,1,7,64}, or msg and "
                "DST adjacent in one backing array; whole backing arrays compared before/after; returned slices overwritten up to cap and "
                "compared with later results, two results must not overlap; non-receiver operands keep their value. Non-trivial = an input "
                "slice with cap > len / interior / shared, any slice-returning call, or a pointer argument in a non-default representation. After every hashing case three later calls with short arguments run and the earlier buffers are re-checked (a buffer stays the caller's after the call returned).",
        "units": [unit("props", "^TestC15", tier(120000, 8, 900), tier(4800000, 16, 5400))],
        "checks_expected": ["C15/memory", "C15/retention", "C15/read-only-arguments"],
    },
    "C18": {
        "rule": "entropy scripts substituted for crypto/rand.Reader: 0..4 blocks congruent to 0 mod n (0 or n) followed by a usable block "
                "from {n+d, n+2^k, 2^256-d, n-d, small, [2^129.., 2^256), uniform} and a 64..96 byte tail; Read calls return chunks from "
                "{32,1,31,7,16,33,64} bytes (cycled); optional fault (error, EOF, or bytes+error) either strictly before the first usable "
                "block is complete (must panic) or >= 64 bytes after it (must succeed). Oracle: first complete block with v mod n != 0, "
                "reduced. Non-trivial = more than one block, a fault, or a first block >= n. Distinct by case hash. The failing source presents one of ten error identities (custom, EOF, ErrUnexpectedEOF, EINTR, EAGAIN, wrapped EINTR, PathError, timeout, ErrClosed, bytes+error). endurance: one API function called 2^20+2^10 (quick; slower functions 2^17 or 2^13) or 2^24+2^12 (thorough; slowest 2^18) times in one process from call number 0, every call compared with a pre-computed model result, operands rotating through a table of boundary and ordinary values (rotation offset = shard); all cases non-trivial.",
        "units": [unit("props", "^TestC18", tier(400000, 8, 900), tier(16000000, 16, 5400)),
                  unit("endure", "^TestEndure$", tier(1, 4, 900), tier(1, 2, 5400), env={"VERIF_ENDURE_PROP": "C18", "VERIF_SHARDS": "1", "VERIF_CASE_TIMEOUT_S": "3000"}, expects=["C18/endurance"])],
        "checks_expected": ["C18/random"],
    },
    "C16": {
        "rule": "cases: a shared environment (2 elements from point specs, 2 scalars, msg and DST slices with interior offset / spare "
                "capacity, shared encodings) and 2..10 call descriptors over it drawn from 24 API functions (hashing, element and scalar "
                "methods taking the shared values as arguments, decoders of shared encodings, constructors, Order, Random), executed by "
                "2..8 goroutines released together, each in its own generated permutation, on private receivers. Oracles: the Go race "
                "detector (happens-before; exit code 66 on any race), per-goroutine results equal to the sequential results, shared "
                "arguments unchanged. Non-trivial = at least two goroutines and one call. Distinct by case hash. A second shared DST (often oversize) is used by calls with odd index; the concurrent phase runs before the sequential reference, and every process starts with an all-functions workload run concurrently (cold start).",
        "units": [unit("race", "^TestC16", tier(4000, 8, 900), tier(160000, 16, 5400), race=True)],
        "checks_expected": ["C16/concurrent"],
        "assumptions": ["race detection is happens-before based: it reports conflicting accesses that execute, it does not enumerate interleavings"],
    },
    "C17": {
        "rule": "generated main packages: blank-import subset (0..4 packages) of a pool of 15 standard packages (fmt, os, strings, "
                "encoding/hex, math/big, crypto/rand, crypto/sha512, crypto/md5, hash/fnv, encoding/json, sort, time, crypto/sha256, "
                "crypto/tls, net/http) x function in {HashToGroup, EncodeToGroup, HashToScalar} x (msg, DST); the empty subset is a fixed "
                "case for each function. Each program is built with plain `go build` against the tree under test and executed; oracle: "
                "exit status 0 and printed hex equals the model value. Non-trivial = the other imports do not link crypto/sha256 "
                "(decided with `go list -deps`). Distinct by case hash. Variants: the program re-registers SHA-256 with an implementation exposing only hash.Hash; the program first makes 3..1000 calls with an empty DST and recovers from the documented panic. A program that does not finish within 20 s is a violation (hang).",
        "units": [unit("prog", "^TestC17", tier(16, 8, 900), tier(160, 16, 5400), env={"VERIF_SHRINKTIME": "2s"})],
        "checks_expected": ["C17/programs"],
        "assumptions": ["'programs' is narrowed to import sets of standard-library packages under one toolchain/GOOS"],
    },
    "C19": {
        "rule": "cases (point spec, scalar k != 1): k single-bit, random of random bit length (leading-zero runs of every length), low "
                "Hamming weight, dense (n-1 minus a sparse value), boundary-biased; 0, 2, 3, n-1, 2^255, 2^128, 2^200-1, n/2 as fixed "
                "cases on G, a Z != 1 point and the identity. Oracle (metamorphic): the sequence of function entries in internal/field "
                "and internal/scalar recorded during Multiply(k) equals, in length and order, the sequence recorded during Multiply(0) on "
                "a copy of the same point (about 78 900 entries). Non-trivial = k != 0. Distinct by case hash. Scalars include the algebraic constants of n (endomorphism eigenvalue) and Montgomery-domain patterns; the trace of a second Multiply by the same scalar value must also be identical (history independence).",
        "units": [unit("trace", "^TestC19", tier(12000, 8, 900), tier(480000, 16, 5400), overlay="trace")],
        "checks_expected": ["C19/schedule", "C19/long-run"],
        "assumptions": ["granularity is function entry in internal/*: data-dependent branches inside one function, memory access patterns and real timing are not observed"],
    },
}
