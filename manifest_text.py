"""Texts of MANIFEST.json per property."""
import json, os
from checks_config import PROPS

COMMON = (" The generated search runs in processes that differ in what nobody lists as an input: one P, CPU counts from 1 to 16, a 32-bit build, a -race (checkptr) "
          "build, a purego/unoptimised build, a start during an entropy outage or with a broken SHA-256 registration, hostile ambient entropy; documented panics are "
          "provoked and recovered before one case in eight; for functions of the API an endurance unit compares every one of 2^20 (quick) / 2^24 (thorough) calls in one "
          "process with the model, with a rotating table, one hot operand, rings of up to 65 537 distinct operands (working set) and under garbage-collection / "
          "stack-move churn (DESIGN.md 3.5, 3.5a).")


def T(level, note, technique, ref):
    return {"level": level + COMMON, "note": note, "technique": technique, "design_ref": ref}

MODEL = "Trusted base: the harness reference model (math/big, crypto/sha256; validated against RFC 9380 vectors at start-up), rapid v1.3.0, the Go toolchain."

TEXT = {
 "C01": T("Generated (point spec, scalar) pairs with boundary-biased scalars (0,1,n-1, bit 255, word-sized, algebraic constants, patterns in the Montgomery form), scalar objects with a history, and points in many projective representations (API recipes, white-box rescaling and coordinate targets); Multiply is compared with an independent affine double-and-add, with literal k-fold sums for small k and with metamorphic relations. Exploration: finds defects that affect classes of scalars/points, proves nothing about all 2^512 pairs.",
          MODEL, "property-based differential testing against a math/big reference model + metamorphic relations (rapid)", "DESIGN.md 4/C01"),
 "C02": T("Generated ordered pairs of points by relation class (independent, P=Q, P=-Q with same/different Z, identities in several representations, aliasing, nil) with white-box rescaling of projective coordinates and named intermediates of the formulas aimed at boundary values; results compared with the textbook affine law and validated as curve points. Every named exceptional class is constructed on every run; completeness itself is explored, not proved.",
          MODEL + " White-box coordinate access through a build overlay (calibrated at start-up; API-only fallback).", "property-based differential testing over constructed exceptional classes (rapid, build-overlay accessor)", "DESIGN.md 4/C02"),
 "C03": T("Byte strings from constructed classes (valid encodings, single-field mutations, p-aliases, the exhaustive word-wise neighbourhood of p, hybrid prefixes, all 1-byte strings, non-ASCII hex, random) are fed to every decoder, twice in a row, with a prior receiver (incl. used objects and zero-value structs); acceptance is compared with a predicate written from the statement, accepted values with the model point, rejected inputs must leave the receiver's value unchanged. Thorough tier adds coverage-guided native fuzzing with the same oracle. One case in ten presents a checksum twin (same length, equal under the CRC family, the xor folds or the additive checksums; constructed) of a valid encoding decoded just before.",
          MODEL, "property-based differential testing of decoders against an acceptance predicate + native coverage-guided fuzzing", "DESIGN.md 4/C03"),
 "C04": T("Points in generated representations (API recipes and white-box rescaling, both parities, identity representations) are encoded; bytes are compared with SEC1 bytes built by the model, all views must agree, all representations must give identical bytes, and both encodings must round-trip through Decode. The look-alike abscissa decoded before the round trips may be a checksum twin of the abscissa that lies on the curve as well.",
          MODEL, "property-based differential + round-trip testing (rapid)", "DESIGN.md 4/C04"),
 "C05": T("Ordered pairs by relation class (same element/different representation, P vs -P, shared x, shared y via the endomorphism, identity representations) compared with model equality; symmetry and 0/1 range checked.",
          MODEL, "property-based testing against model equality over constructed relation classes (rapid)", "DESIGN.md 4/C05"),
 "C06": T("Every scalar operation on operands from the boundary generator in canonical and Montgomery-limb domains, with aliasing and nil operands, compared with math/big mod n; canonicity of stored limbs checked after every call.",
          MODEL, "property-based differential testing against math/big (rapid) + native fuzzing", "DESIGN.md 4/C06"),
 "C07": T("Byte/hex strings around n (single-limb differences, n+-2^k, lengths 0..80) decoded by all scalar decoders; acceptance compared with len=32 and int<n, stored value re-derived from the limbs independently, error classes compared.",
          MODEL, "property-based differential testing against an acceptance predicate (rapid) + native fuzzing", "DESIGN.md 4/C07"),
 "C08": T("Generated (msg, DST) including DST lengths 255/256/>255/2^16+-, an exhaustive (message length x DST length) grid, pre-image lengths around powers of two, sequences of calls from re-used caller buffers and all memory layouts, compared with an independent implementation of RFC 9380 hash_to_curve / encode_to_curve written from the non-optimised description; branch classes of the model are counted. Sequences of calls include consecutive requests whose tags or messages are checksum twins, and every message length around buffer sizes (2^8..2^16, 3*2^k, 10^k; thorough to 2^20); the sequence check runs first in its process.",
          MODEL, "property-based differential testing against an independent RFC 9380 implementation (rapid) + native fuzzing", "DESIGN.md 4/C08"),
 "C09": T("Generated (msg, DST) and chosen 48-byte expander outputs fed to the wide reduction, compared with OS2IP(expand_message_xmd) mod n computed by the model. Sequences of calls include consecutive requests whose tags or messages are checksum twins, and every message length around buffer sizes (2^8..2^16, 3*2^k, 10^k; thorough to 2^20); the sequence check runs first in its process.",
          MODEL, "property-based differential testing against the model (rapid)", "DESIGN.md 4/C09"),
 "C10": T("Stateful model-based testing: generated histories over a pool of elements and scalars with arbitrary aliasing; after every step every variable is compared with the abstract model.",
          MODEL, "stateful model-based property testing (rapid state machine)", "DESIGN.md 4/C10"),
 "C11": T("Generated field elements u (exceptional values on every run), SSWU and isogeny outputs compared with the RFC 9380 6.6.2 description implemented in the model; generated points of E' for the isogeny alone.",
          MODEL, "property-based differential testing against the model (rapid)", "DESIGN.md 4/C11"),
 "C12": T("Every base-field operation on boundary-biased operands in canonical and Montgomery domains, with output aliasing, compared with math/big mod p; canonicity checked after every call.",
          MODEL, "property-based differential testing against math/big (rapid) + native fuzzing", "DESIGN.md 4/C12"),
 "C13": T("Generated scalar pairs (equal, adjacent, single-limb differences in both domains, random) and condition words (0,1,2,..,2^64-1) compared with integer semantics.",
          MODEL, "property-based testing against integer semantics (rapid)", "DESIGN.md 4/C13"),
 "C14": T("Generated scalars in canonical and Montgomery domains; all 256 positions of Bits compared with the bits of the independently computed canonical value and with Encode.",
          MODEL, "property-based differential testing (rapid)", "DESIGN.md 4/C14"),
 "C15": T("Generated API call descriptors with generated slice layouts (interior slices, spare capacity, shared backing arrays); full backing arrays and non-receiver operands compared before/after, returned slices scribbled on. Later calls of other shapes (long and oversize tags) run directly after the hashing call under test before the caller's buffers are re-inspected.",
          MODEL, "property-based invariant checking over calls and memory layouts (rapid)", "DESIGN.md 4/C15"),
 "C16": T("Generated sets of concurrent calls over shared arguments (two shared DSTs, shared encodings, error paths) run under the Go race detector, starting cold in every process; results compared with sequential results computed afterwards.",
          MODEL + " The Go race detector (happens-before).", "generated concurrent workloads under the race detector + differential result comparison (rapid)", "DESIGN.md 4/C16"),
 "C17": T("Generated main packages (import subsets, including the empty one) built with plain go build and executed; output compared with the model. Registry-replaced programs include a SHA-256 whose Sum returns a newly allocated slice; the thorough tier adds test binaries built with go1.26.8 whose first call runs inside a testing/synctest bubble.",
          MODEL, "generated-program testing over import sets with a differential oracle", "DESIGN.md 4/C17"),
 "C18": T("Generated entropy scripts (boundary blocks 0, n, n+1.., chunked reads, injected errors/EOF) substituted for crypto/rand.Reader; result compared with a model of the documented retry/reduce behaviour.",
          MODEL, "property-based testing with fault injection on the entropy source (rapid)", "DESIGN.md 4/C18"),
 "C19": T("Function-entry traces of every internal/* function (AST instrumentation through a build overlay) recorded during Multiply for generated scalars and compared with the trace for scalar 0 on the same point.",
          MODEL + " The AST instrumenter (harness/cmd/instrument).", "metamorphic property-based testing on instrumented execution traces (rapid)", "DESIGN.md 4/C19"),
}

_all = [json.loads(l)["id"] for l in open(os.path.join(os.path.dirname(os.path.abspath(__file__)), "properties.jsonl"))]
NOT_APPLICABLE = [{"property_id": p, "reason": "check not built yet in this commit (work in progress; the technique applies, see DESIGN.md section 4)"} for p in _all if p not in PROPS]
