#!/bin/bash
# usage: tools/try_patch.sh <patch.diff> <tier> <property-id>...
# Applies the patch to a scratch worktree of /repo (outside /repo and /verif), confirms the unedited test
# suite still passes there, runs the given checks against it (VERIF_REPO) and removes the worktree.
set -u
patch=$(readlink -f "$1"); tier=$2; shift 2
export GOFLAGS=-mod=mod GOPROXY=off GOSUMDB=off GOTOOLCHAIN=local
wt=$(mktemp -d /tmp/mut_XXXXXX); rmdir "$wt"
git -C /repo worktree add -q --detach "$wt" HEAD || exit 2
trap 'git -C /repo worktree remove --force "$wt" >/dev/null 2>&1; rm -rf "$wt"' EXIT
if ! git -C "$wt" apply "$patch"; then echo "PATCH-DOES-NOT-APPLY"; exit 2; fi
if (cd "$wt" && go build ./... && go test -vet=off -count=1 ./... >/tmp/mut_suite.$$ 2>&1); then echo "suite: passes with the patch"; else echo "suite: FAILS with the patch"; tail -5 /tmp/mut_suite.$$; fi
rm -f /tmp/mut_suite.$$
for p in "$@"; do
  out=$(cd /verif && VERIF_REPO="$wt" ./check "$p" "$tier" 2>&1); rc=$?
  echo "== $p rc=$rc"; echo "$out" | grep -E "VIOLATION|NO VERDICT|^OK|KNOWN" | head -4
  echo "$out" | grep -E "failed after|fixed case|panic after" | head -2 | cut -c1-400
done
