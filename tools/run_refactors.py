#!/usr/bin/env python3
"""usage: tools/run_refactors.py [tier]
Applies every behaviour-preserving refactor under /verif/seeded/refactor-* to a scratch worktree, confirms the
unedited suite passes there, and runs ALL checks against it: every check must stay silent (exit 0; exit 2 =
no verdict is reported but is not an alarm). Exit 1 if any check raises a VIOLATION."""
import os, re, shutil, subprocess, sys, tempfile
root = os.path.dirname(os.path.dirname(os.path.abspath(__file__)))
sys.path.insert(0, root)
from checks_config import PROPS
tier = sys.argv[1] if len(sys.argv) > 1 else "quick"
env = dict(os.environ, GOFLAGS="-mod=mod", GOPROXY="off", GOSUMDB="off", GOTOOLCHAIN="local")
alarms = 0
for n in sorted(os.listdir(os.path.join(root, "seeded"))):
    if not n.startswith("refactor-"):
        continue
    wt = tempfile.mkdtemp(prefix="rf_", dir="/tmp"); os.rmdir(wt)
    try:
        subprocess.run(["git", "-C", "/repo", "worktree", "add", "-q", "--detach", wt, "HEAD"], check=True)
        r = subprocess.run(["git", "apply", os.path.join(root, "seeded", n, "patch.diff")], cwd=wt, capture_output=True, text=True)
        if r.returncode != 0:
            print(n, "PATCH DOES NOT APPLY", r.stderr[:300]); continue
        r = subprocess.run("go build ./... && go test -vet=off -count=1 ./...", shell=True, cwd=wt, env=env, capture_output=True, text=True)
        print("%s: suite %s" % (n, "passes" if r.returncode == 0 else "FAILS (not a valid refactor)"))
        for p in sorted(PROPS):
            r = subprocess.run(["./check", p, tier], cwd=root, env=dict(env, VERIF_REPO=wt), capture_output=True, text=True)
            tag = {0: "silent", 1: "ALARM", 2: "no-verdict"}.get(r.returncode, str(r.returncode))
            if r.returncode == 1:
                alarms += 1
            line = [l for l in r.stdout.splitlines() if "VIOLATION" in l or l.startswith("OK") or "NO VERDICT" in l][:1]
            print("   %s %-10s %s" % (p, tag, (line[0][:150] if line else "")))
            if r.returncode == 1:
                m = re.search(r"(fixed case.*|failed after.*|panic after.*)", r.stdout)
                if m: print("        ", m.group(1)[:400])
    finally:
        subprocess.run(["git", "-C", "/repo", "worktree", "remove", "--force", wt], capture_output=True)
        shutil.rmtree(wt, ignore_errors=True)
sys.exit(1 if alarms else 0)
