#!/usr/bin/env python3
"""usage: tools/run_seeded.py [tier] [seed-dir-name ...]
For every seeded change under /verif/seeded: confirm it in a scratch worktree (suite passes with it, demo fails
with it and passes without it) and run the check of the property it breaks. Prints a table; exit 1 if a
confirmed change is missed."""
import json, os, re, subprocess, sys
root = os.path.dirname(os.path.dirname(os.path.abspath(__file__)))
tier = sys.argv[1] if len(sys.argv) > 1 else "quick"
names = sys.argv[2:] or sorted(os.listdir(os.path.join(root, "seeded")))
missed = 0
for n in names:
    d = os.path.join(root, "seeded", n)
    if not os.path.exists(os.path.join(d, "patch.diff")) or n.startswith("refactor-"):
        continue
    meta = json.load(open(os.path.join(d, "meta.json")))
    props = [meta["property"]] + meta.get("also_check", [])
    use_tier = tier
    if meta.get("detect_tier") == "thorough" and os.environ.get("SEEDED_THOROUGH") == "1":
        use_tier = "thorough"  # changes that need millions of calls in one process: only the thorough tier is expected to see them
    r = subprocess.run([os.path.join(root, "tools", "eval_seed.py"), d, use_tier] + props, capture_output=True, text=True)
    conf = re.search(r"confirm: (.*)", r.stdout)
    res = re.findall(r"check (\S+) rc=(\d+)", r.stdout)
    first = re.search(r"\n    (.*)", r.stdout)
    ok = any(rc == "1" for p, rc in res if p == meta["property"])
    if not ok and (not meta.get("expected", "").startswith("MISSED") or use_tier == "thorough"):
        missed += 1
    print("%-8s %s %s %s" % (n, "DETECTED" if ok else ("MISSED (expected, residual)" if meta.get("expected") else "MISSED  "), " ".join("%s=%s" % x for x in res), conf.group(1) if conf else r.stdout[-300:]))
    if first:
        print("         ", first.group(1)[:200])
sys.exit(1 if missed else 0)
