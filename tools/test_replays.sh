#!/bin/bash
# usage: tools/test_replays.sh <seed-name> <property> [tier]   - applies a seeded change in a scratch worktree, runs the check, then
# replays the reported file against the same tree (must print VIOLATION again) and against /repo (must pass).
export GOFLAGS=-mod=mod GOPROXY=off GOSUMDB=off GOTOOLCHAIN=local
seed=$1; prop=$2; tier=${3:-quick}
wt=$(mktemp -d /tmp/rp_XXXX); rmdir $wt
git -C /repo worktree add -q --detach $wt HEAD && (cd $wt && git apply /verif/seeded/$seed/patch.diff) || exit 2
cd /verif
out=$(VERIF_REPO=$wt ./check $prop $tier 2>&1)
rp=$(echo "$out" | grep -o "VIOLATION property=$prop replay=[^ ]*" | head -1 | sed 's/.*replay=//')
if [ -z "$rp" ]; then echo "$seed: no violation reported"; else
  a=$(VERIF_REPO=$wt ./check $prop --replay $rp 2>&1 | grep -c "^VIOLATION")
  b=$(./check $prop --replay $rp 2>&1 | grep -c "replay passes")
  echo "$seed: replay=$rp on-changed-tree-violation=$a on-repo-passes=$b $(python3 -c "import json;d=json.load(open('$rp'));print({k:d.get(k) for k in ('goarch','gomaxprocs','num_cpu','race_build','alt_build','env','class')})")"
fi
git -C /repo worktree remove --force $wt
