#!/usr/bin/env python3
"""usage: tools/eval_seed.py <seed-dir containing patch.diff [+ demo_test.go]> <tier> <property-id>...
Confirms a seeded change in a scratch worktree (suite passes with it; demo fails with it and passes without it)
and runs the given checks against the changed tree. Prints one summary line per step. Cleans up after itself."""
import json, os, re, shutil, subprocess, sys, tempfile

seed = os.path.abspath(sys.argv[1]); tier = sys.argv[2]; props = sys.argv[3:]
env = dict(os.environ, GOFLAGS="-mod=mod", GOPROXY="off", GOSUMDB="off", GOTOOLCHAIN="local")
wt = tempfile.mkdtemp(prefix="mut_", dir="/tmp"); os.rmdir(wt)
def sh(cmd, cwd=None, e=None):
    r = subprocess.run(cmd, shell=True, cwd=cwd, env=e or env, capture_output=True, text=True)
    return r.returncode, r.stdout + r.stderr
res = {}
try:
    rc, out = sh("git -C /repo worktree add -q --detach %s HEAD" % wt); assert rc == 0, out
    demo = os.path.join(seed, "demo_test.go")
    have_demo = os.path.exists(demo)
    meta = json.load(open(os.path.join(seed, "meta.json"))) if os.path.exists(os.path.join(seed, "meta.json")) else {}
    # some demonstrations need to be the first test of their process (-run) or another platform (GOARCH=386 runs natively)
    demo_cmd = "go test -vet=off -count=1 -timeout 20m %s ./tests/" % (("-run '%s'" % meta["demo_run"]) if meta.get("demo_run") else "")
    demo_env = dict(env, **meta.get("demo_env", {}))
    if have_demo:
        shutil.copy(demo, os.path.join(wt, "tests", "zz_demo_test.go"))
        rc, out = sh(demo_cmd, cwd=wt, e=demo_env)
        res["demo_without_patch"] = "pass" if rc == 0 else "FAIL"
        os.remove(os.path.join(wt, "tests", "zz_demo_test.go"))
    rc, out = sh("git apply %s" % os.path.join(seed, "patch.diff"), cwd=wt)
    if rc != 0:
        print("PATCH DOES NOT APPLY", out); sys.exit(2)
    rc, out = sh("go build ./... && go test -vet=off -count=1 ./...", cwd=wt)
    res["suite_with_patch"] = "pass" if rc == 0 else "FAIL"
    if have_demo:
        shutil.copy(demo, os.path.join(wt, "tests", "zz_demo_test.go"))
        rc, out = sh(demo_cmd, cwd=wt, e=demo_env)
        res["demo_with_patch"] = "fail" if rc != 0 else "PASSES"
        os.remove(os.path.join(wt, "tests", "zz_demo_test.go"))
    print("confirm:", json.dumps(res))
    for p in props:
        e2 = dict(env, VERIF_REPO=wt)
        rc, out = sh("./check %s %s" % (p, tier), cwd="/verif", e=e2)
        v = re.findall(r"VIOLATION property=\S+ replay=\S+", out)
        first = re.search(r"(fixed case.*|failed after.*|panic after.*|WARNING: DATA RACE)", out)
        print("check %s rc=%d %s" % (p, rc, ("| " + v[0]) if v else ""))
        if first: print("   ", first.group(1)[:300])
        if rc == 2: print(out[-1500:])
        if rc == 0: print("   ", [l for l in out.splitlines() if l.startswith("OK")][:1])
finally:
    sh("git -C /repo worktree remove --force %s" % wt); shutil.rmtree(wt, ignore_errors=True)
