#!/usr/bin/env python3
"""Mechanical mutation run (sensitivity measurement, not a registered check).

usage: tools/mutate.py <out.jsonl> [--files f1,f2,...] [--workers N] [--scale S] [--limit N] [--sample-generated N]

For every single-line mutant of the hand-written sources (and a sample of the machine-generated ones) produced by the
operators below, in a scratch worktree of /repo: (1) build; (2) run the unedited suite - mutants it kills are
uninteresting; (3) for survivors run the quick checks of the properties anchored in the mutated file (case counts
scaled by --scale) and record which of them raise a VIOLATION. Survivors no check detects are either equivalent mutants
or gaps; they are listed at the end for triage.
"""
import json, os, random, re, shutil, subprocess, sys, tempfile, threading, queue

ROOT = os.path.dirname(os.path.dirname(os.path.abspath(__file__)))
ENV = dict(os.environ, GOFLAGS="-mod=mod", GOPROXY="off", GOSUMDB="off", GOTOOLCHAIN="local")

FILES = {
    "element.go": ["C01", "C02", "C03", "C04", "C05", "C10", "C15", "C19"],
    "scalar.go": ["C06", "C07", "C13", "C14", "C18", "C10", "C01"],
    "group.go": ["C08", "C09", "C15"],
    "xmd.go": ["C08", "C09", "C15", "C16", "C17"],
    "mapping.go": ["C11", "C08"],
    "internal/field/element.go": ["C12", "C11", "C03", "C04", "C05"],
    "internal/field/reduce.go": ["C12", "C03", "C04"],
    "internal/scalar/scalar.go": ["C06", "C07", "C09", "C13", "C18"],
    "internal/field/fe_invert.go": ["C12", "C04"],
    "internal/field/fe_expPMin3Div4.go": ["C12", "C03", "C11"],
    "internal/scalar/scalar_invert.go": ["C06"],
    "internal/field/secp256k1montgomery.go": ["C12", "C02"],
    "internal/scalar/secp256k1montgomeryscalar.go": ["C06", "C07", "C14"],
}
GENERATED = {"internal/field/secp256k1montgomery.go", "internal/scalar/secp256k1montgomeryscalar.go", "internal/field/fe_invert.go",
             "internal/field/fe_expPMin3Div4.go", "internal/scalar/scalar_invert.go"}

SWAPS = [
    (r"\.Add\(", ".Subtract("), (r"\.Subtract\(", ".Add("), (r"\.Multiply\(", ".Add("), (r"\.Square\(", ".Negate("),
    (r"\.Negate\(", ".Set("), (r"\.Double\(\)", ".Negate()"), (r"bits\.Add64\(", "bits.Sub64("), (r"bits\.Sub64\(", "bits.Add64("),
    (r" == ", " != "), (r" != ", " == "), (r" <= ", " < "), (r" < ", " <= "), (r" >= ", " > "), (r" > ", " >= "),
    (r" && ", " || "), (r" \|\| ", " && "), (r" & ", " | "), (r" \| ", " & "), (r" \^ ", " | "), (r" \+ ", " - "), (r" - ", " + "),
    (r">> (\d+)", lambda m: ">> %d" % (int(m.group(1)) + 1)), (r"<< (\d+)", lambda m: "<< %d" % (int(m.group(1)) + 1)),
    (r"\bi--", "i++"), (r":= 255;", ":= 254;"), (r">= 0;", "> 0;"), (r"range 256", "range 255"),
    (r"\[0\]", "[1]"), (r"\[1\]", "[0]"), (r"\[3\]", "[2]"), (r"\[2\]", "[3]"),
    (r"\[:(\w+)\]", lambda m: "[:%s-1]" % m.group(1)), (r"\[(\w+):\]", lambda m: "[%s+1:]" % m.group(1)),
    (r"\bSub\(", "Add("), (r"\bAdd\(", "Sub("), (r"\bMul\(", "Add("), (r"\bSquare\(", "Opp("),
]


def mutants_for(path, text, sample_generated, rng):
    lines = text.split("\n")
    out = []
    in_block_comment = False
    for i, line in enumerate(lines):
        stripped = line.strip()
        if stripped.startswith("/*"):
            in_block_comment = True
        if in_block_comment:
            if "*/" in stripped:
                in_block_comment = False
            continue
        if not stripped or stripped.startswith("//") or stripped.startswith("import") or stripped.startswith("package") or stripped.startswith('"'):
            continue
        code = line.split("//")[0]
        # operator swaps (first occurrence on the line, one mutant per operator)
        for pat, rep in SWAPS:
            m = re.search(pat, code)
            if not m:
                continue
            new = code[:m.start()] + (rep(m) if callable(rep) else rep) + code[m.end():]
            if new != code:
                out.append((i, line, new + line[len(code):], "swap %s" % pat))
        # integer literal +-1 (decimal literals, not inside hex, first two occurrences)
        for m in list(re.finditer(r"(?<![\w.x])(\d{1,20})(?![\w.])", code))[:2]:
            v = int(m.group(1))
            for d in (1, -1):
                if v + d < 0:
                    continue
                new = code[:m.start()] + str(v + d) + code[m.end():]
                out.append((i, line, new + line[len(code):], "literal %d->%d" % (v, v + d)))
        # hex literal: flip lowest bit
        for m in list(re.finditer(r"0x([0-9a-fA-F]+)", code))[:1]:
            v = int(m.group(1), 16) ^ 1
            new = code[:m.start()] + "0x%x" % v + code[m.end():]
            out.append((i, line, new + line[len(code):], "hex flip"))
        # statement deletion: a line that is a single call statement
        if re.match(r"^\s*[\w.\[\]]+\.\w+\(.*\)\s*$", code) and ":=" not in code and "return" not in code and "defer" not in code:
            out.append((i, line, re.match(r"^\s*", line).group(0) + "_ = 0 // deleted: " + stripped.replace("/*", "").replace("*/", ""), "delete statement"))
        # conditional move: force the condition
        m = re.search(r"\.CMove\((\w+),", code)
        if m:
            for forced in ("0", "1"):
                new = code[:m.start(1)] + forced + code[m.end(1):]
                out.append((i, line, new + line[len(code):], "cmove cond %s" % forced))
        # return early: replace `return X` value swaps
        if re.search(r"return errParam\w+", code):
            out.append((i, line, re.sub(r"return errParam\w+", "return nil", code), "error swallowed"))
    if path in GENERATED and sample_generated and len(out) > sample_generated:
        out = rng.sample(out, sample_generated)
    return out


def sh(cmd, cwd, timeout=600, env=None):
    try:
        r = subprocess.run(cmd, shell=True, cwd=cwd, env=env or ENV, capture_output=True, text=True, timeout=timeout)
        return r.returncode, r.stdout + r.stderr
    except subprocess.TimeoutExpired:
        return 124, "timeout"


def worker(wid, q, results, scale, lock):
    wt = tempfile.mkdtemp(prefix="mutw%d_" % wid, dir="/tmp")
    os.rmdir(wt)
    subprocess.run(["git", "-C", "/repo", "worktree", "add", "-q", "--detach", wt, "HEAD"], check=True)
    try:
        while True:
            try:
                job = q.get_nowait()
            except queue.Empty:
                return
            path, lineno, old, new, desc, props = job
            full = os.path.join(wt, path)
            orig = open(full).read()
            lines = orig.split("\n")
            assert lines[lineno] == old
            lines[lineno] = new
            open(full, "w").write("\n".join(lines))
            rec = {"file": path, "line": lineno + 1, "op": desc, "old": old.strip(), "new": new.strip()}
            try:
                rc, out = sh("go build ./... 2>&1", wt, 300)
                if rc != 0:
                    rec["status"] = "does-not-compile"
                else:
                    rc, out = sh("go test -vet=off -count=1 ./... 2>&1", wt, 300)
                    if rc != 0:
                        rec["status"] = "killed-by-suite"
                    else:
                        rec["status"] = "survived-suite"
                        det, nov = [], []
                        for p in props:
                            e = dict(ENV, VERIF_REPO=wt, VERIF_SCALE=str(scale), VERIF_CASE_TIMEOUT_S="60")
                            rc, out = sh("./check %s quick" % p, ROOT, 900, e)
                            if rc == 1:
                                det.append(p)
                            elif rc != 0:
                                nov.append(p)
                        rec["detected_by"], rec["no_verdict"] = det, nov
            finally:
                open(full, "w").write(orig)
            with lock:
                results.write(json.dumps(rec) + "\n")
                results.flush()
    finally:
        subprocess.run(["git", "-C", "/repo", "worktree", "remove", "--force", wt], capture_output=True)
        shutil.rmtree(wt, ignore_errors=True)


def main():
    args = sys.argv[1:]
    out = args[0]
    opt = lambda name, d: (args[args.index(name) + 1] if name in args else d)
    files = opt("--files", ",".join(FILES)).split(",")
    workers = int(opt("--workers", "4"))
    scale = float(opt("--scale", "0.15"))
    limit = int(opt("--limit", "0"))
    sample_generated = int(opt("--sample-generated", "40"))
    rng = random.Random(int(opt("--seed", "1")))
    jobs = []
    for f in files:
        text = open(os.path.join("/repo", f)).read()
        for (i, old, new, desc) in mutants_for(f, text, sample_generated, rng):
            jobs.append((f, i, old, new, desc, FILES[f]))
    if limit:
        jobs = rng.sample(jobs, min(limit, len(jobs)))
    print("%d mutants" % len(jobs), flush=True)
    q = queue.Queue()
    for j in jobs:
        q.put(j)
    lock = threading.Lock()
    with open(out, "a") as results:
        ts = [threading.Thread(target=worker, args=(w, q, results, scale, lock)) for w in range(workers)]
        for t in ts:
            t.start()
        for t in ts:
            t.join()
    recs = [json.loads(l) for l in open(out)]
    surv = [r for r in recs if r.get("status") == "survived-suite"]
    undet = [r for r in surv if not r.get("detected_by")]
    print("mutants %d, compile errors %d, killed by suite %d, survived suite %d, of which detected %d, undetected %d" % (
        len(recs), sum(r["status"] == "does-not-compile" for r in recs), sum(r["status"] == "killed-by-suite" for r in recs), len(surv), len(surv) - len(undet), len(undet)))
    for r in undet:
        print("UNDETECTED %s:%d [%s] %s  =>  %s" % (r["file"], r["line"], r["op"], r["old"], r["new"]))


if __name__ == "__main__":
    main()
