// This file is NOT part of bytemare/secp256k1. It is added to package secp256k1 at build time by the
// verification harness (go test -overlay, see /verif/DESIGN.md section 3.1) and exists only under /verif.
// It gives the harness read/write access to the raw projective limbs and to the unexported expander.
// It is type-checked against the real struct: a refactor makes the white-box build fail (the driver then
// falls back to the API-only build), never silently wrong.

package secp256k1

// VerifLimbs returns the raw limbs (Montgomery domain, little-endian words) of the projective coordinates.
func VerifLimbs(e *Element) (x, y, z [4]uint64) {
	return [4]uint64(e.x.E), [4]uint64(e.y.E), [4]uint64(e.z.E)
}

// VerifSetLimbs overwrites the raw limbs of the projective coordinates.
func VerifSetLimbs(e *Element, x, y, z [4]uint64) {
	copy(e.x.E[:], x[:])
	copy(e.y.E[:], y[:])
	copy(e.z.E[:], z[:])
}

// VerifExpandXMD calls the unexported expand_message_xmd implementation.
func VerifExpandXMD(msg, dst []byte, length uint) []byte {
	return expandXMD(msg, dst, length)
}
