#!/usr/bin/env python3
"""Regenerates MANIFEST.json from checks_config.py and manifest_text.py (kept valid at all times)."""
import json, os, sys
sys.path.insert(0, os.path.dirname(os.path.abspath(__file__)))
from checks_config import PROPS
from manifest_text import TEXT, NOT_APPLICABLE

checks = []
for pid in sorted(PROPS):
    t = TEXT[pid]
    checks.append({
        "property_id": pid,
        "quick_cmd": "./check %s quick" % pid,
        "thorough_cmd": "./check %s thorough" % pid,
        "evidence_file": "/verif/evidence/%s.json" % pid,
        "replay_cmd_template": "./check %s --replay {path}" % pid,
        "engine": "rapid-harness",
        "level_claimed": {"category": "exploration", "text": t["level"], "design_ref": t["design_ref"]},
        "level_note": t["note"],
        "technique": t["technique"],
    })
m = {
    "version": 1,
    "setup_cmd": "./setup.sh",
    "hooks": {
        "guard": "verif_access",
        "enable": "no source hooks in /repo: checks compile /repo's packages with `go test -overlay` adding /verif/overlay/access.go to package secp256k1 (harness tag verif_access) and, for C19, AST-instrumented copies of internal/*; nothing is committed to /repo",
        "baseline_off_cmd": "cd /repo && GOFLAGS=-mod=mod GOPROXY=off go test -vet=off -count=1 ./...",
        "source_commits": [],
        "add_only": True,
    },
    "engines": [{
        "name": "rapid-harness", "path": "/verif/harness",
        "serves_properties": sorted(PROPS),
        "kind_free_text": "property-based testing (pgregory.net/rapid v1.3.0) with an independent math/big reference model, sharded over cores; Go native fuzz targets in the thorough tier; driver /verif/check",
    }],
    "checks": checks,
    "not_applicable": NOT_APPLICABLE,
    "notes": "All checks rebuild the harness against /repo's working tree on every invocation (go test -c). VERIF_SEED selects the rapid seed. Exit 2 = no verdict.",
}
json.dump(m, open(os.path.join(os.path.dirname(os.path.abspath(__file__)), "MANIFEST.json"), "w"), indent=1)
print("MANIFEST.json: %d checks, %d not_applicable" % (len(checks), len(NOT_APPLICABLE)))
