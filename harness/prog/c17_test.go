// Package prog holds C17: the hashing functions work in any program that imports the package. It
// generates main packages (import subsets of a pool, the empty subset being the decisive one), builds them
// with plain `go build` (not `go test`, whose generated main links crypto/sha256) and runs them.
package prog

import (
	"bytes"
	"context"
	"encoding/hex"
	"fmt"
	"os"
	"os/exec"
	"path/filepath"
	"runtime"
	"sort"
	"strings"
	"sync"
	"testing"
	"time"

	"github.com/bytemare/secp256k1/verifharness/gen"
	"github.com/bytemare/secp256k1/verifharness/ref"
	"pgregory.net/rapid"
)

func TestMain(m *testing.M) { gen.Main(m) }

// TestReplay replays $VERIF_REPLAY.
func TestReplay(t *testing.T) { gen.ReplayMain(t) }

type caseC17 struct {
	Imports []string `json:"imports"` // extra packages linked into the program (blank imports)
	Fn      string   `json:"fn"`      // HashToGroup | EncodeToGroup | HashToScalar
	Msg     string   `json:"msg"`
	Dst     string   `json:"dst"`
	// Wrap: the program re-registers SHA-256 in the crypto registry with a correct implementation that exposes
	// only the hash.Hash methods (as an instrumented or third-party implementation would).
	Wrap bool `json:"wrap,omitempty"`
	// FreshSum (with Wrap): the registered implementation's Sum returns a NEWLY ALLOCATED slice (b || digest) instead of appending
	// in place - hash.Hash only promises "appends the current hash to b and returns the resulting slice"; a caller that ignores the
	// returned slice and reads the buffer it passed sees nothing.
	FreshSum bool `json:"fresh_sum,omitempty"`
	// Rejected: before the real call the program makes this many calls with an empty DST and recovers from the
	// documented panic (a server rejecting bad requests): hashing must still work afterwards.
	Rejected int `json:"rejected,omitempty"`
	// SingleP: the program runs with GOMAXPROCS=1 (one-vCPU container).
	SingleP bool `json:"single_p,omitempty"`
	// Arch386: the program is built for a 32-bit platform (GOARCH=386 binaries run natively on amd64).
	Arch386 bool `json:"arch386,omitempty"`
	// DeadStderr: the program's stderr is a pipe whose reader has gone away (a supervisor restarted, `prog 2>&1 | head -1`): a
	// hashing call that writes anything to it is killed by SIGPIPE. The result is read from stdout.
	DeadStderr bool `json:"dead_stderr,omitempty"`
	// Where the program makes the call: main (default), init (during package initialisation), goroutine, locked (a goroutine
	// wired to its OS thread), finalizer (the runtime's finalizer goroutine).
	Where string `json:"where,omitempty"`
	// Outage: the program starts during an entropy outage: crypto/rand.Reader fails while it makes its first call (the panic,
	// if any, is recovered), then works again, and the call is repeated: the second call must return the result.
	Outage bool `json:"outage,omitempty"`
	// IdleMs: the program makes the call, stays idle for this long, and makes the call again (thorough tier: more than two minutes)
	IdleMs int `json:"idle_ms,omitempty"`
	// Fork: the program also links a COPY of the package under another import path (a fork, a vendored copy inside a dependency,
	// a later /v2 next to v1) and calls both: whatever the package registers in process-wide namespaces at init (expvar, flag,
	// metrics, gob types, hash registrations) must not collide with itself.
	Fork bool `json:"fork,omitempty"`
	// Go126: the program is built with the newer toolchain installed next to the default one (go1.26.8; thorough tier only: the
	// first build of its standard library takes a minute)
	Go126 bool `json:"go126,omitempty"`
	// Tracer: while the program makes its calls (a few hundred in a loop), another goroutine keeps switching the execution tracer
	// (runtime/trace) on and off, as a /debug/pprof/trace handler or a sampling agent does
	Tracer bool `json:"tracer,omitempty"`
	// Godebug: the program runs with this GODEBUG setting (runtime knobs a deployment may set: asyncpreemptoff=1 is the documented
	// work-around for signal trouble, and what platforms without asynchronous preemption always have)
	Godebug string `json:"godebug,omitempty"`
	// OverP: the program runs with GOMAXPROCS = NumCPU + 3 (more Ps than usable CPUs: an orchestrator that fixes GOMAXPROCS while a
	// cpuset shrinks the affinity mask, or an I/O-heavy service that raises it) and makes a few dozen calls before the one it reports.
	OverP bool `json:"over_p,omitempty"`
	// Bubble (only together with Go126): the program is a TEST binary built with the newer toolchain that links testing/synctest; the
	// first hashing call of the process runs inside a synctest bubble (the usual way to test protocol code on a fake clock), after an
	// hour of fake time a goroutine of the bubble calls again, then the test calls from outside of any bubble and from a second
	// bubble. Whatever the package creates lazily in its first call (channels, timers, goroutines) then belongs to the first bubble.
	Bubble bool `json:"bubble,omitempty"`
}

const bubbleTemplate = `package verifprog

import (
	"os"
	"testing"
	"testing/synctest"
	"time"

	secp "github.com/bytemare/secp256k1"
)

var (
	msg = []byte{%s}
	dst = []byte{%s}
)

func compute() []byte {
	switch %q {
	case "HashToGroup":
		return secp.HashToGroup(msg, dst).Encode()
	case "EncodeToGroup":
		return secp.EncodeToGroup(msg, dst).Encode()
	default:
		return secp.HashToScalar(msg, dst).Encode()
	}
}

func TestFirstCallInBubble(t *testing.T) {
	var results [][]byte
	synctest.Test(t, func(t *testing.T) {
		results = append(results, compute()) // the first hashing call of the process
		time.Sleep(time.Hour)                // (fake clock)
		done := make(chan []byte)
		go func() { done <- compute() }()
		results = append(results, <-done)
		synctest.Wait()
	})
	results = append(results, compute()) // outside of any bubble
	synctest.Test(t, func(t *testing.T) { results = append(results, compute()) })
	results = append(results, compute())
	out := results[0]
	for _, r := range results {
		if string(r) != string(out) {
			out = []byte("bubbles disagree")
		}
	}
	const digits = "0123456789abcdef"
	b := make([]byte, 0, 2*len(out))
	for _, c := range out {
		b = append(b, digits[c>>4], digits[c&15])
	}
	os.Stdout.WriteString("RESULT=" + string(b) + "\n")
}
`

// writeFork copies the non-test sources of the tree under test into dir/fork as module example.com/fork/secp256k1.
func writeFork(dir string) error {
	src, dst := repoDir(), filepath.Join(dir, "fork")
	err := filepath.WalkDir(src, func(path string, d os.DirEntry, err error) error {
		if err != nil {
			return err
		}
		rel, _ := filepath.Rel(src, path)
		if d.IsDir() {
			if name := d.Name(); rel != "." && (strings.HasPrefix(name, ".") || name == "tests" || name == "testdata" || name == "vendor") {
				return filepath.SkipDir
			}
			return os.MkdirAll(filepath.Join(dst, rel), 0o755)
		}
		if !strings.HasSuffix(path, ".go") || strings.HasSuffix(path, "_test.go") {
			return nil
		}
		raw, rerr := os.ReadFile(path)
		if rerr != nil {
			return rerr
		}
		raw = bytes.ReplaceAll(raw, []byte(`"github.com/bytemare/secp256k1/`), []byte(`"example.com/fork/secp256k1/`))
		return os.WriteFile(filepath.Join(dst, rel), raw, 0o644)
	})
	if err != nil {
		return err
	}
	return os.WriteFile(filepath.Join(dst, "go.mod"), []byte("module example.com/fork/secp256k1\n\ngo 1.22.2\n"), 0o644)
}

const forkSrc = `package main

import fork "example.com/fork/secp256k1"

func init() {
	forkCompute = func(fn string, msg, dst []byte) []byte {
		switch fn {
		case "HashToGroup":
			return fork.HashToGroup(msg, dst).Encode()
		case "EncodeToGroup":
			return fork.EncodeToGroup(msg, dst).Encode()
		}
		return fork.HashToScalar(msg, dst).Encode()
	}
}
`

var importPool = []string{"fmt", "os", "strings", "encoding/hex", "math/big", "crypto/rand", "crypto/sha512", "crypto/md5", "hash/fnv",
	"encoding/json", "sort", "time", "crypto/sha256", "crypto/tls", "net/http"}

func repoDir() string {
	if d := os.Getenv("VERIF_REPO"); d != "" {
		return d
	}
	return "/repo"
}

func goEnv() []string {
	return append(os.Environ(), "GOFLAGS=-mod=mod", "GOPROXY=off", "GOSUMDB=off", "GOTOOLCHAIN=local", "GOWORK=off")
}

var (
	linksMu   sync.Mutex
	linksSHA  = map[string]bool{}
	linksDone = map[string]bool{}
)

// linksSha256 reports whether importing pkg alone pulls crypto/sha256 into the binary.
func linksSha256(pkg string) bool {
	linksMu.Lock()
	defer linksMu.Unlock()
	if linksDone[pkg] {
		return linksSHA[pkg]
	}
	cmd := exec.Command("go", "list", "-deps", pkg)
	cmd.Env = goEnv()
	out, err := cmd.Output()
	has := err != nil // unknown: count conservatively as "links it"
	for _, l := range strings.Split(string(out), "\n") {
		if strings.TrimSpace(l) == "crypto/sha256" {
			has = true
		}
	}
	linksDone[pkg], linksSHA[pkg] = true, has
	return has
}

const wrapSrc = `package main

import (
	"crypto"
	"crypto/sha256"
	"hash"
	"runtime"
)

type onlyHash struct{ hash.Hash }

var freshSum = %v

func (o onlyHash) Sum(b []byte) []byte {
	if !freshSum {
		return o.Hash.Sum(b)
	}
	out := make([]byte, 0, len(b)+sha256.Size+7)
	return append(append(out, b...), o.Hash.Sum(nil)...)
}

func init() {
	// (a constructor with a scheduling point: metering, logging, a pool)
	crypto.RegisterHash(crypto.SHA256, func() hash.Hash { runtime.Gosched(); return onlyHash{sha256.New()} })
}
`

const mainTemplate = `package main

import (
	"crypto/rand"
	"errors"
	"io"
	"os"
	"runtime"
	"runtime/trace"
	"time"

	secp "github.com/bytemare/secp256k1"
%s)

func reject(fn string) {
	defer func() { _ = recover() }()
	switch fn {
	case "HashToGroup":
		secp.HashToGroup([]byte("m"), nil)
	case "EncodeToGroup":
		secp.EncodeToGroup([]byte("m"), []byte{})
	default:
		secp.HashToScalar(nil, nil)
	}
}

var (
	msg = []byte{%s}
	dst = []byte{%s}
)

type outage struct{}

func (outage) Read([]byte) (int, error) { return 0, errors.New("no entropy") }

func firstCallDuringOutage() {
	saved := rand.Reader
	rand.Reader = outage{}
	defer func() {
		rand.Reader = saved
		_ = recover()
	}()
	switch %q {
	case "HashToGroup":
		_ = secp.HashToGroup(msg, dst).Encode()
	case "EncodeToGroup":
		_ = secp.EncodeToGroup(msg, dst).Encode()
	default:
		_ = secp.HashToScalar(msg, dst).Encode()
	}
}

func traceToggler(stop chan struct{}) {
	for {
		select {
		case <-stop:
			return
		default:
		}
		if trace.Start(io.Discard) == nil {
			time.Sleep(300 * time.Microsecond)
			trace.Stop()
		}
		time.Sleep(200 * time.Microsecond)
	}
}

func compute() []byte {
	if %v {
		stop := make(chan struct{})
		go traceToggler(stop)
		defer close(stop)
		for i := 0; i < 400; i++ {
			_ = secp.HashToScalar(msg, dst).Encode()
			_ = secp.EncodeToGroup(msg, dst).Encode()
			_ = secp.HashToGroup(msg, dst).Encode()
		}
	}
	if %v {
		firstCallDuringOutage()
	}
	if os.Getenv("VERIF_WARM_CALLS") != "" {
		for i := 0; i < 40; i++ {
			_ = secp.HashToScalar(msg, dst).Encode()
			_ = secp.EncodeToGroup(msg, dst).Encode()
			_ = secp.HashToGroup(msg, dst).Encode()
		}
	}
	if idle := %d; idle > 0 {
		_ = secp.HashToScalar(msg, dst).Encode()
		_ = secp.HashToGroup(msg, dst).Encode()
		time.Sleep(time.Duration(idle) * time.Millisecond)
	}
	for i := 0; i < %d; i++ {
		reject([]string{"HashToGroup", "EncodeToGroup", "HashToScalar"}[i%%3])
	}
	switch %q {
	case "HashToGroup":
		return secp.HashToGroup(msg, dst).Encode()
	case "EncodeToGroup":
		return secp.EncodeToGroup(msg, dst).Encode()
	default:
		return secp.HashToScalar(msg, dst).Encode()
	}
}

// forkCompute is set by fork.go when the program also links a copy of the package under another import path.
var forkCompute func(fn string, msg, dst []byte) []byte

var where = %q

// during package initialisation
var initOut = func() []byte {
	if where == "init" {
		return compute()
	}
	return nil
}()

type big64 [64]byte

func main() {
	var out []byte
	ch := make(chan []byte, 1)
	switch where {
	case "init":
		out = initOut
	case "locked": // on a goroutine wired to its OS thread
		go func() {
			runtime.LockOSThread()
			ch <- compute()
		}()
		out = <-ch
	case "goroutine":
		go func() { ch <- compute() }()
		out = <-ch
	case "crowd": // the first calls of the process are made by eight goroutines at once
		res := make(chan []byte, 8)
		for i := 0; i < 8; i++ {
			go func() { res <- compute() }()
		}
		for i := 0; i < 8; i++ {
			if r := <-res; out == nil {
				out = r
			} else if string(r) != string(out) {
				out = []byte("crowd disagrees")
			}
		}
	case "finalizer": // on the finalizer goroutine
		obj := new(big64)
		runtime.SetFinalizer(obj, func(*big64) { ch <- compute() })
		obj = nil
		for out == nil {
			runtime.GC()
			select {
			case out = <-ch:
			case <-time.After(10 * time.Millisecond):
			}
		}
	default:
		out = compute()
	}
	if forkCompute != nil {
		if other := forkCompute(%q, msg, dst); string(other) != string(out) {
			os.Stdout.WriteString("FORK-DISAGREES\n")
		}
	}
	const digits = "0123456789abcdef"
	b := make([]byte, 0, 2*len(out))
	for _, c := range out {
		b = append(b, digits[c>>4], digits[c&15])
	}
	os.Stdout.WriteString("RESULT=" + string(b) + "\n") // (stdout: stderr may be a dead pipe)
}
`

// go126 reports whether programs built with the newer toolchain are part of this run (thorough tier).
func go126() bool { return os.Getenv("VERIF_TIER") == "thorough" }

// idleLong is the long idle period: more than two minutes in the thorough tier, a second otherwise.
func idleLong() int {
	if os.Getenv("VERIF_TIER") == "thorough" {
		return 125000
	}
	return 1000
}

func byteList(b []byte) string {
	var sb strings.Builder
	for _, c := range b {
		fmt.Fprintf(&sb, "%d,", c)
	}
	return sb.String()
}

func runC17(c caseC17, o *gen.Obs) error {
	msg, dst := gen.HexBytes(c.Msg), gen.HexBytes(c.Dst)
	imports := append([]string(nil), c.Imports...)
	sort.Strings(imports)
	otherLinks := false
	for _, p := range imports {
		otherLinks = otherLinks || linksSha256(p)
	}
	o.Class("fn:" + c.Fn)
	o.ClassIf(len(imports) == 0, "imports:none")
	o.ClassIf(!otherLinks, "sha256-not-linked-by-others")
	o.ClassIf(otherLinks, "sha256-linked-by-others")
	o.ClassIf(c.Wrap, "registry-replaced")
	o.ClassIf(c.Wrap && c.FreshSum, "registry-replaced:sum-returns-a-new-slice")
	o.ClassIf(c.Rejected > 0, "after-rejected-calls")
	o.NonTrivialIf(!otherLinks || c.Wrap || c.Rejected > 0 || c.SingleP || c.Arch386 || c.DeadStderr || c.Where != "" || c.Outage || c.IdleMs > 0 || c.Fork || c.Tracer || c.Godebug != "" || c.OverP || c.Bubble)

	dir, err := os.MkdirTemp("", "verif-c17-")
	if err != nil {
		return &gen.Inconclusive{Msg: err.Error()}
	}
	defer os.RemoveAll(dir)
	var imp strings.Builder
	for _, p := range imports {
		fmt.Fprintf(&imp, "\t_ %q\n", p)
	}
	where := c.Where
	if where == "" {
		where = "main"
	}
	o.Class("where:" + where)
	o.ClassIf(c.Outage, "entropy-outage-at-start")
	src := fmt.Sprintf(mainTemplate, imp.String(), byteList(msg), byteList(dst), c.Fn, c.Tracer, c.Outage, c.IdleMs, c.Rejected, c.Fn, where, c.Fn)
	gomod := fmt.Sprintf("module verifprog\n\ngo 1.22.2\n\nrequire github.com/bytemare/secp256k1 v0.0.0\n\nreplace github.com/bytemare/secp256k1 => %s\n", repoDir())
	if err := os.WriteFile(filepath.Join(dir, "main.go"), []byte(src), 0o644); err != nil {
		return &gen.Inconclusive{Msg: err.Error()}
	}
	if err := os.WriteFile(filepath.Join(dir, "go.mod"), []byte(gomod), 0o644); err != nil {
		return &gen.Inconclusive{Msg: err.Error()}
	}
	if c.Wrap {
		if err := os.WriteFile(filepath.Join(dir, "wrap.go"), []byte(fmt.Sprintf(wrapSrc, c.FreshSum)), 0o644); err != nil {
			return &gen.Inconclusive{Msg: err.Error()}
		}
	}
	if c.Fork {
		o.Class("links-a-fork-of-the-package")
		if err := writeFork(dir); err != nil {
			return &gen.Inconclusive{Msg: "cannot copy the tree: " + err.Error()}
		}
		gomod += "\nrequire example.com/fork/secp256k1 v0.0.0\n\nreplace example.com/fork/secp256k1 => ./fork\n"
		if err := os.WriteFile(filepath.Join(dir, "go.mod"), []byte(gomod), 0o644); err != nil {
			return &gen.Inconclusive{Msg: err.Error()}
		}
		if err := os.WriteFile(filepath.Join(dir, "fork.go"), []byte(forkSrc), 0o644); err != nil {
			return &gen.Inconclusive{Msg: err.Error()}
		}
	}
	tool := "go"
	bubble := false
	if c.Go126 {
		if path, lerr := exec.LookPath("go1.26.8"); lerr == nil {
			tool = path
			o.Class("toolchain:go1.26.8")
			bubble = c.Bubble
		} else {
			o.Class("skipped:no-newer-toolchain")
		}
	}
	build := exec.Command(tool, "build", "-o", "prog", ".")
	if bubble {
		// a test binary of a module that says go 1.25 (bubble semantics of channels and timers), first call inside synctest.Test
		o.Class("first-call-in-synctest-bubble")
		_ = os.Remove(filepath.Join(dir, "main.go"))
		_ = os.Remove(filepath.Join(dir, "wrap.go"))
		_ = os.Remove(filepath.Join(dir, "fork.go"))
		bsrc := fmt.Sprintf(bubbleTemplate, byteList(msg), byteList(dst), c.Fn)
		bmod := fmt.Sprintf("module verifprog\n\ngo 1.25\n\nrequire github.com/bytemare/secp256k1 v0.0.0\n\nreplace github.com/bytemare/secp256k1 => %s\n", repoDir())
		if err := os.WriteFile(filepath.Join(dir, "bubble_test.go"), []byte(bsrc), 0o644); err != nil {
			return &gen.Inconclusive{Msg: err.Error()}
		}
		if err := os.WriteFile(filepath.Join(dir, "go.mod"), []byte(bmod), 0o644); err != nil {
			return &gen.Inconclusive{Msg: err.Error()}
		}
		build = exec.Command(tool, "test", "-c", "-vet=off", "-o", "prog", ".")
	}
	build.Dir, build.Env = dir, goEnv()
	if c.Arch386 {
		build.Env = append(build.Env, "GOARCH=386", "CGO_ENABLED=0")
		o.Class("goarch=386")
	}
	if out, err := build.CombinedOutput(); err != nil {
		// a build failure of the generated program is a harness/toolchain problem or a tree that does not compile
		return &gen.Inconclusive{Msg: fmt.Sprintf("go build failed: %v\n%s", err, out)}
	}
	var (
		stdout, stderr bytes.Buffer
		rerr           error
		timedOut       bool
	)
	// 20 s for a program that hashes once; if it does not finish, it is given 60 s in a second run before it is declared
	// blocked (on a saturated machine a process can be starved for a long time; a deadlock stays a deadlock)
	for _, limit := range []time.Duration{20 * time.Second, 60 * time.Second} {
		stdout.Reset()
		stderr.Reset()
		timedOut, rerr = runProgram(c, o, dir, limit+time.Duration(c.IdleMs)*time.Millisecond, &stdout, &stderr)
		if !timedOut {
			break
		}
	}
	if timedOut {
		return gen.Fail(c.Fn+"/program-hangs", "a program importing %v (%d rejected calls first) did not finish within 20 s and, run again, within 60 s: %s never returned", imports, c.Rejected, c.Fn)
	}
	return judgeProgram(c, imports, msg, dst, stdout.String()+stderr.String(), rerr)
}

// runProgram runs the built program once with a deadline. It reports whether the deadline was hit.
func runProgram(c caseC17, o *gen.Obs, dir string, limit time.Duration, stdout, stderr *bytes.Buffer) (bool, error) {
	ctx, cancel := context.WithTimeout(context.Background(), limit)
	defer cancel()
	run := exec.CommandContext(ctx, filepath.Join(dir, "prog"))
	run.Stdout, run.Stderr = stdout, stderr
	if c.SingleP {
		run.Env = append(os.Environ(), "GOMAXPROCS=1")
		o.Class("single-p")
	}
	if c.OverP && !c.SingleP {
		if run.Env == nil {
			run.Env = os.Environ()
		}
		run.Env = append(run.Env, fmt.Sprintf("GOMAXPROCS=%d", runtime.NumCPU()+3), "VERIF_WARM_CALLS=40")
		o.Class("gomaxprocs>numcpu")
	}
	if c.Godebug != "" {
		if run.Env == nil {
			run.Env = os.Environ()
		}
		run.Env = append(run.Env, "GODEBUG="+c.Godebug)
		o.Class("godebug:" + c.Godebug)
	}
	if c.DeadStderr {
		pr, pw, perr := os.Pipe()
		if perr != nil {
			return false, perr
		}
		pr.Close() // nobody reads: a write to fd 2 raises SIGPIPE
		defer pw.Close()
		run.Stderr = pw
		o.Class("dead-stderr")
	}
	rerr := run.Run()
	return ctx.Err() != nil, rerr
}

// judgeProgram compares what the program printed with the model.
func judgeProgram(c caseC17, imports []string, msg, dst []byte, all string, rerr error) error {
	var want []byte
	switch c.Fn {
	case "HashToGroup":
		p, _ := ref.HashToCurve(msg, dst)
		want = ref.Compress(p)
	case "EncodeToGroup":
		p, _ := ref.EncodeToCurve(msg, dst)
		want = ref.Compress(p)
	default:
		want = ref.Bytes32(ref.HashToScalar(msg, dst))
	}
	if rerr != nil {
		cls := c.Fn + "/program-fails"
		if strings.Contains(all, "requested hash function") {
			cls = c.Fn + "/hash-not-linked"
		} else if c.Wrap {
			cls = c.Fn + "/depends-on-concrete-hash-type"
		}
		tail := all
		if len(tail) > 600 {
			tail = tail[:600]
		}
		return gen.Fail(cls, "a program importing %v plus the package fails in %s: %v\n%s", imports, c.Fn, rerr, tail)
	}
	if strings.Contains(all, "FORK-DISAGREES") {
		return gen.Fail(c.Fn+"/fork-disagrees", "a copy of the package under another import path returns something else than the package in the same program")
	}
	line := "RESULT=" + hex.EncodeToString(want)
	if !strings.Contains(all, line) {
		return gen.Fail(c.Fn+"/value", "program importing %v printed %q, want %s", imports, strings.TrimSpace(all), line)
	}
	return nil
}

var c17 = gen.Register(&gen.Check[caseC17]{
	Name: "C17/programs",
	Gen: func(t *rapid.T) caseC17 {
		c := caseC17{Fn: rapid.SampledFrom([]string{"HashToGroup", "EncodeToGroup", "HashToScalar"}).Draw(t, "fn")}
		n := gen.Pick(t, "nimports", 5)
		seen := map[string]bool{}
		for i := 0; i < n; i++ {
			p := importPool[gen.Pick(t, "import", len(importPool))]
			if !seen[p] {
				seen[p] = true
				c.Imports = append(c.Imports, p)
			}
		}
		c.Wrap = gen.Chance(t, "wrap", 1, 4)
		c.FreshSum = c.Wrap && rapid.Bool().Draw(t, "freshSum")
		c.SingleP = gen.Chance(t, "singleP", 1, 3)
		c.Arch386 = gen.Chance(t, "arch386", 1, 4)
		c.DeadStderr = gen.Chance(t, "deadStderr", 1, 4)
		c.Where = []string{"", "", "init", "goroutine", "locked", "finalizer", "crowd"}[gen.Pick(t, "where", 7)]
		c.OverP = gen.Chance(t, "overP", 1, 4)
		if gen.Chance(t, "godebug", 1, 4) {
			c.Godebug = rapid.SampledFrom([]string{"asyncpreemptoff=1", "asyncpreemptoff=1,gcstoptheworld=1", "madvdontneed=1", "asyncpreemptoff=1"}).Draw(t, "godebugValue")
		}
		c.Outage = gen.Chance(t, "outage", 1, 4)
		c.Fork = gen.Chance(t, "fork", 1, 5)
		c.Tracer = gen.Chance(t, "tracer", 1, 6)
		if gen.Chance(t, "rejected", 1, 3) {
			c.Rejected = rapid.SampledFrom([]int{1000, 70, 3, 300}).Draw(t, "nrej")
		}
		dl := rapid.SampledFrom([]int{16, 1, 49, 255, 256, 300}).Draw(t, "dlen")
		c.Dst = hex.EncodeToString(rapid.SliceOfN(rapid.Byte(), dl, dl).Draw(t, "dst"))
		ml := rapid.IntRange(0, 40).Draw(t, "mlen")
		if gen.Chance(t, "boundaryLen", 1, 2) {
			// total pre-image length of the first hash block chain around a power of two (fixed-size buffers end there)
			eff := dl
			if dl > 255 {
				eff = 32
			}
			b := rapid.SampledFrom([]int{1024, 256, 512, 2048, 4096}).Draw(t, "bufSize")
			if l := b + rapid.IntRange(-2, 2).Draw(t, "bd") - (64 + 2 + 1 + eff + 1); l >= 0 {
				ml = l
			}
		}
		c.Msg = hex.EncodeToString(gen.RandBytes(t, "msg", ml))
		return c
	},
	Fixed: func() []caseC17 {
		dst := hex.EncodeToString([]byte("QUUX-V01-CS02-with-secp256k1_XMD:SHA-256_SSWU_RO_"))
		return []caseC17{
			{Fn: "HashToGroup", Msg: "616263", Dst: dst},
			{Fn: "EncodeToGroup", Msg: "616263", Dst: dst},
			{Fn: "HashToScalar", Msg: "616263", Dst: dst},
			{Fn: "HashToScalar", Msg: "", Dst: hex.EncodeToString(bytes.Repeat([]byte{'L'}, 300))},
			{Fn: "HashToGroup", Msg: "616263", Dst: dst, Wrap: true},
			{Fn: "HashToGroup", Msg: "616263", Dst: dst, Wrap: true, FreshSum: true}, {Fn: "HashToScalar", Msg: "616263", Dst: hex.EncodeToString(bytes.Repeat([]byte{'s'}, 300)), Wrap: true, FreshSum: true},
			{Fn: "EncodeToGroup", Msg: "", Dst: dst, Wrap: true, FreshSum: true, SingleP: true},
			{Fn: "HashToGroup", Msg: "616263", Dst: dst, SingleP: true}, {Fn: "EncodeToGroup", Msg: "616263", Dst: dst, SingleP: true},
			{Fn: "HashToScalar", Msg: "616263", Dst: dst, SingleP: true},
			{Fn: "HashToGroup", Msg: "616263", Dst: "01", DeadStderr: true}, {Fn: "HashToScalar", Msg: "616263", Dst: dst, DeadStderr: true},
			{Fn: "EncodeToGroup", Msg: "", Dst: hex.EncodeToString(bytes.Repeat([]byte{'x'}, 300)), DeadStderr: true},
			{Fn: "HashToGroup", Msg: "616263", Dst: dst, IdleMs: 1200}, {Fn: "HashToScalar", Msg: "616263", Dst: hex.EncodeToString(bytes.Repeat([]byte{'i'}, 300)), IdleMs: idleLong()},
			{Fn: "HashToGroup", Msg: "616263", Dst: dst, Tracer: true}, {Fn: "HashToScalar", Msg: "616263", Dst: dst, Tracer: true, SingleP: true},
			{Fn: "HashToGroup", Msg: "616263", Dst: dst, Fork: true}, {Fn: "HashToScalar", Msg: "616263", Dst: hex.EncodeToString(bytes.Repeat([]byte{'f'}, 300)), Fork: true},
			{Fn: "HashToGroup", Msg: "616263", Dst: dst, Go126: go126()}, {Fn: "HashToScalar", Msg: "616263", Dst: dst, Go126: go126(), Bubble: go126()}, {Fn: "HashToGroup", Msg: "616263", Dst: hex.EncodeToString(bytes.Repeat([]byte{'b'}, 300)), Go126: go126(), Bubble: go126(), SingleP: true},
			{Fn: "HashToScalar", Msg: "616263", Dst: hex.EncodeToString(bytes.Repeat([]byte{'n'}, 300)), Go126: go126(), Where: "goroutine"},
			{Fn: "HashToGroup", Msg: "616263", Dst: dst, Outage: true}, {Fn: "EncodeToGroup", Msg: "616263", Dst: dst, Outage: true}, {Fn: "HashToScalar", Msg: "616263", Dst: dst, Outage: true},
			{Fn: "HashToGroup", Msg: "616263", Dst: dst, OverP: true}, {Fn: "HashToScalar", Msg: "616263", Dst: dst, OverP: true, Where: "crowd"},
			{Fn: "HashToGroup", Msg: "616263", Dst: dst, Where: "crowd", SingleP: true, Godebug: "asyncpreemptoff=1", Wrap: true},
			{Fn: "HashToScalar", Msg: "616263", Dst: dst, Where: "crowd", Godebug: "asyncpreemptoff=1"}, {Fn: "EncodeToGroup", Msg: "616263", Dst: dst, Where: "crowd", SingleP: true, Wrap: true},
			{Fn: "HashToGroup", Msg: "616263", Dst: dst, Where: "init"}, {Fn: "HashToScalar", Msg: "616263", Dst: dst, Where: "finalizer"},
			{Fn: "EncodeToGroup", Msg: "616263", Dst: dst, Where: "locked", SingleP: true}, {Fn: "HashToGroup", Msg: "", Dst: dst, Where: "goroutine"},
			{Fn: "HashToGroup", Msg: "616263", Dst: dst, Arch386: true}, {Fn: "HashToScalar", Msg: "616263", Dst: dst, Arch386: true},
			{Fn: "EncodeToGroup", Msg: "616263", Dst: dst, Rejected: 1000},
			boundaryProgram("HashToGroup", 256, 0), boundaryProgram("HashToScalar", 256, 1), boundaryProgram("EncodeToGroup", 512, 0),
			boundaryProgram("HashToGroup", 512, 1), boundaryProgram("HashToScalar", 1024, 0), boundaryProgram("HashToGroup", 1024, 1),
			boundaryProgram("EncodeToGroup", 2048, 0), boundaryProgram("HashToScalar", 2048, 1), boundaryProgram("HashToGroup", 4096, 0),
			boundaryProgram("EncodeToGroup", 4096, 1),
			{Fn: "HashToScalar", Msg: "616263", Dst: dst, Wrap: true, Imports: []string{"fmt"}},
		}
	},
	Required: []string{"imports:none", "sha256-not-linked-by-others", "registry-replaced", "after-rejected-calls", "single-p", "goarch=386", "dead-stderr"},
	Run:      runC17,
})

func TestC17Programs(t *testing.T) { c17.Execute(t) }

// boundaryProgram hashes a message whose first-block pre-image (64 + len(msg) + 2 + 1 + len(DST) + 1 bytes) is b + d bytes long.
func boundaryProgram(fn string, b, d int) caseC17 {
	dst := []byte("QUUX-V01-CS02-with-secp256k1_XMD:SHA-256_SSWU_RO_")
	msg := make([]byte, b+d-(64+2+1+len(dst)+1))
	for i := range msg {
		msg[i] = byte(i*7 + b)
	}
	return caseC17{Fn: fn, Msg: hex.EncodeToString(msg), Dst: hex.EncodeToString(dst)}
}
