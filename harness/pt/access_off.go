//go:build !verif_access

package pt

import "github.com/bytemare/secp256k1"

// WhiteBox reports whether the accessor overlay was compiled in.
const WhiteBox = false

func rawLimbs(e *secp256k1.Element) (x, y, z [4]uint64) { return }

func setRawLimbs(e *secp256k1.Element, x, y, z [4]uint64) {}

// ExpandXMD is unavailable without the accessor overlay.
func ExpandXMD(msg, dst []byte, n uint) ([]byte, bool) { return nil, false }
