package pt

import (
	"bytes"
	"fmt"
	"io"
	"math/big"
	"reflect"
	"sync"
	"unsafe"

	"github.com/bytemare/secp256k1"
	"github.com/bytemare/secp256k1/verifharness/gen"
	"github.com/bytemare/secp256k1/verifharness/ref"
)

// The API as it was when the checks were written. Methods that are NOT in these lists are probed (ProbeNewAPI): a tree may add
// API, and whatever it adds is part of "any sequence of API calls" - it must keep every object valid, leave its arguments and
// the package's state alone, and must not change what the known functions do afterwards.
var (
	knownElementMethods = map[string]bool{"Add": true, "Base": true, "Copy": true, "Decode": true, "DecodeCompressed": true, "DecodeCoordinates": true, "DecodeHex": true,
		"DecodeUncompressed": true, "Double": true, "Encode": true, "EncodeUncompressed": true, "Equal": true, "Hex": true, "Identity": true, "IsIdentity": true,
		"MarshalBinary": true, "Multiply": true, "Negate": true, "Set": true, "Subtract": true, "UnmarshalBinary": true, "XCoordinate": true}
	knownScalarMethods = map[string]bool{"Add": true, "Bits": true, "CSelect": true, "Copy": true, "Decode": true, "DecodeHex": true, "Encode": true, "Equal": true, "Hex": true,
		"Invert": true, "IsOne": true, "IsZero": true, "LessOrEqual": true, "MarshalBinary": true, "MinusOne": true, "Multiply": true, "One": true, "Pow": true, "Random": true,
		"Set": true, "SetUInt64": true, "Square": true, "Subtract": true, "UnmarshalBinary": true, "Zero": true,
		// interface methods the checks probe on their own (text / JSON routes)
		"UnmarshalText": true, "MarshalText": true, "UnmarshalJSON": true, "MarshalJSON": true, "String": true, "GoString": true, "Format": true}
)

func init() {
	for _, k := range []string{"UnmarshalText", "MarshalText", "UnmarshalJSON", "MarshalJSON", "String", "GoString", "Format"} {
		knownElementMethods[k] = true
	}
}

// NewMethods lists the exported methods of *Element and *Scalar that the baseline API does not have.
func NewMethods() (elem, scal []reflect.Method) {
	te, ts := reflect.TypeOf(secp256k1.NewElement()), reflect.TypeOf(secp256k1.NewScalar())
	for i := 0; i < te.NumMethod(); i++ {
		if m := te.Method(i); !knownElementMethods[m.Name] {
			elem = append(elem, m)
		}
	}
	for i := 0; i < ts.NumMethod(); i++ {
		if m := ts.Method(i); !knownScalarMethods[m.Name] {
			scal = append(scal, m)
		}
	}
	return elem, scal
}

var (
	typElem   = reflect.TypeOf((*secp256k1.Element)(nil))
	typScal   = reflect.TypeOf((*secp256k1.Scalar)(nil))
	typBytes  = reflect.TypeOf([]byte(nil))
	typReader = reflect.TypeOf((*io.Reader)(nil)).Elem()
	gEnc      = ref.Compress(ref.G())
)

type byteArg struct {
	backing, snap []byte
	start, n      int
}

// probeArgs builds arguments for a method from its parameter types; ok is false when a type is not supported.
func probeArgs(m reflect.Method, variant int) (args []reflect.Value, ptrs []any, bufs []*byteArg, ok bool) {
	t := m.Type
	for i := 1; i < t.NumIn(); i++ {
		pt := t.In(i)
		variadic := t.IsVariadic() && i == t.NumIn()-1
		if variadic {
			pt = pt.Elem()
		}
		n := 1
		if variadic {
			n = 2
		}
		for k := 0; k < n; k++ {
			switch {
			case pt == typElem:
				e := []*secp256k1.Element{secp256k1.Base().Double(), secp256k1.Base(), secp256k1.NewElement(), secp256k1.Base().Double().Add(secp256k1.Base())}[(variant+i+k)%4]
				args, ptrs = append(args, reflect.ValueOf(e)), append(ptrs, e)
			case pt == typScal:
				s := []*secp256k1.Scalar{secp256k1.NewScalar().SetUInt64(7), secp256k1.NewScalar(), secp256k1.NewScalar().One(), secp256k1.NewScalar().MinusOne()}[(variant+i+k)%4]
				args, ptrs = append(args, reflect.ValueOf(s)), append(ptrs, s)
			case pt == typBytes:
				content := [][]byte{nil, gEnc, {0}, bytes.Repeat([]byte{7}, 32)}[(variant+k)%4]
				b := &byteArg{backing: make([]byte, 8+len(content)+96), start: 8, n: len(content)}
				for j := range b.backing {
					b.backing[j] = gen.Canary(j)
				}
				copy(b.backing[8:], content)
				b.snap = append([]byte(nil), b.backing...)
				bufs = append(bufs, b)
				args = append(args, reflect.ValueOf(b.backing[8:8+len(content)]))
			case pt.Kind() == reflect.Uint64 || pt.Kind() == reflect.Uint || pt.Kind() == reflect.Uint32 || pt.Kind() == reflect.Uint8 || pt.Kind() == reflect.Uint16:
				v := reflect.New(pt).Elem()
				v.SetUint([]uint64{0, 1, 3, 200}[(variant+k)%4])
				args = append(args, v)
			case pt.Kind() == reflect.Int || pt.Kind() == reflect.Int64 || pt.Kind() == reflect.Int32:
				v := reflect.New(pt).Elem()
				v.SetInt([]int64{0, 1, 3, -1}[(variant+k)%4])
				args = append(args, v)
			case pt.Kind() == reflect.Bool:
				args = append(args, reflect.ValueOf(variant%2 == 0))
			case pt.Kind() == reflect.String:
				args = append(args, reflect.ValueOf([]string{fmt.Sprintf("%x", gEnc), "", "00", "zz"}[(variant+k)%4]))
			case pt.Kind() == reflect.Array && pt.Elem().Kind() == reflect.Uint8:
				v := reflect.New(pt).Elem()
				reflect.Copy(v, reflect.ValueOf(append(append([]byte{}, ref.Bytes32(ref.Gx)...), ref.Bytes32(ref.Gy)...)))
				args = append(args, v)
			case pt.Kind() == reflect.Interface && typReader.Implements(pt) || pt == typReader:
				args = append(args, reflect.ValueOf(bytes.NewReader(bytes.Repeat([]byte{0x5a}, 256))))
			default:
				return nil, nil, nil, false
			}
		}
	}
	return args, ptrs, bufs, true
}

func rawOf(p any) []byte {
	switch v := p.(type) {
	case *secp256k1.Element:
		return append([]byte(nil), unsafe.Slice((*byte)(unsafe.Pointer(v)), unsafe.Sizeof(*v))...)
	case *secp256k1.Scalar:
		return append([]byte(nil), unsafe.Slice((*byte)(unsafe.Pointer(v)), unsafe.Sizeof(*v))...)
	}
	return nil
}

func elementValid(e *secp256k1.Element) string {
	enc := e.Encode()
	unc := e.EncodeUncompressed()
	if e.IsIdentity() != (len(enc) == 1 && enc[0] == 0) {
		return fmt.Sprintf("IsIdentity = %v but Encode = %x", e.IsIdentity(), enc)
	}
	if err := secp256k1.NewElement().Decode(unc); err != nil {
		return fmt.Sprintf("its uncompressed encoding %x is rejected: %v", unc, err)
	}
	d := secp256k1.NewElement()
	if err := d.Decode(enc); err != nil || d.Equal(e) != 1 || e.Equal(d) != 1 {
		return fmt.Sprintf("it is not Equal to the element its own encoding %x decodes to (%v)", enc, err)
	}
	return ""
}

func scalarValid(s *secp256k1.Scalar) string {
	enc := s.Encode()
	v := new(big.Int).SetBytes(enc)
	if len(enc) != 32 || v.Cmp(ref.N) >= 0 {
		return fmt.Sprintf("Encode = %x is not a canonical encoding", enc)
	}
	if limbs := gen.FromLimbs([4]uint64{s.S[0], s.S[1], s.S[2], s.S[3]}); limbs.Cmp(ref.N) >= 0 {
		return fmt.Sprintf("stored limbs %v are not below n", s.S)
	}
	d := secp256k1.NewScalar()
	if err := d.Decode(enc); err != nil || d.Equal(s) != 1 || s.Equal(d) != 1 {
		return fmt.Sprintf("it is not Equal to the scalar its own encoding %x decodes to (%v)", enc, err)
	}
	if s.IsZero() != (v.Sign() == 0) || s.IsOne() != (v.Cmp(big.NewInt(1)) == 0) {
		return fmt.Sprintf("IsZero = %v, IsOne = %v but it encodes to %x", s.IsZero(), s.IsOne(), enc)
	}
	return ""
}

var (
	twoG   = ref.Compress(ref.Double(ref.G()))
	probeM sync.Mutex
	probeN int
)

func packageSane() string {
	if !secp256k1.NewElement().IsIdentity() || !bytes.Equal(secp256k1.NewElement().Encode(), []byte{0}) {
		return "NewElement() is no longer the identity"
	}
	if !bytes.Equal(secp256k1.Base().Encode(), gEnc) {
		return "Base() is no longer G"
	}
	if !bytes.Equal(secp256k1.Base().Double().Encode(), twoG) || !bytes.Equal(secp256k1.Base().Add(secp256k1.Base()).Encode(), twoG) ||
		!bytes.Equal(secp256k1.Base().Multiply(secp256k1.NewScalar().SetUInt64(2)).Encode(), twoG) {
		return "2G computed by Double, Add and Multiply is no longer 2G"
	}
	if !bytes.Equal(secp256k1.Base().Multiply(secp256k1.NewScalar()).Encode(), []byte{0}) || !bytes.Equal(secp256k1.Base().Multiply(nil).Encode(), []byte{0}) {
		return "[0]G is no longer the identity"
	}
	if !secp256k1.NewScalar().IsZero() || !bytes.Equal(secp256k1.Order(), ref.Bytes32(ref.N)) {
		return "NewScalar() / Order() changed"
	}
	return ""
}

// ProbeNewAPI calls every method the baseline API does not have (if any), on several receivers and with arguments built from
// the parameter types; panics are recovered. After each call: the receiver and every pointer argument are still valid objects
// on which all observers agree; pointer arguments were not written; byte-slice arguments are unchanged before their start and
// within their length, and beyond that only where a returned slice that shares their memory extends; the package still
// computes G, 2G and the identity. It returns a description of the first violation, or "". every > 1: only one call in
// `every` does the work (always the first of a process).
func ProbeNewAPI(every int) string {
	elem, scal := NewMethods()
	if len(elem)+len(scal) == 0 {
		return ""
	}
	probeM.Lock()
	probeN++
	n := probeN
	probeM.Unlock()
	if every > 1 && n%every != 1 {
		return ""
	}
	call := func(recv any, m reflect.Method, variant int) string {
		args, ptrs, bufs, ok := probeArgs(m, variant)
		if !ok {
			return ""
		}
		before := make([][]byte, len(ptrs))
		for i, p := range ptrs {
			before[i] = rawOf(p)
		}
		var results []reflect.Value
		func() {
			defer func() { _ = recover() }()
			in := append([]reflect.Value{reflect.ValueOf(recv)}, args...)
			results = m.Func.Call(in)
		}()
		where := fmt.Sprintf("after %s.%s (variant %d)", reflect.TypeOf(recv), m.Name, variant)
		for i, p := range ptrs {
			if p != recv && !bytes.Equal(rawOf(p), before[i]) {
				return fmt.Sprintf("%s: the memory of argument %d (%T) changed", where, i+1, p)
			}
		}
		for _, b := range bufs {
			lim := b.start + b.n // bytes from here on may change only under a returned slice that shares the memory
			for _, r := range results {
				if r.IsValid() && r.Type() == typBytes && r.Len() > 0 {
					rb := r.Bytes()
					p0, q0 := uintptr(unsafe.Pointer(unsafe.SliceData(b.backing))), uintptr(unsafe.Pointer(unsafe.SliceData(rb)))
					if q0 >= p0 && q0 < p0+uintptr(len(b.backing)) {
						lim = max(lim, int(q0-p0)+len(rb))
					}
				}
			}
			for j := range b.backing {
				if (j < b.start+b.n || j >= lim) && b.backing[j] != b.snap[j] {
					return fmt.Sprintf("%s: byte %d of the buffer behind a []byte argument (argument is [%d:%d], result ends at %d) changed from %#x to %#x", where, j, b.start, b.start+b.n, lim, b.snap[j], b.backing[j])
				}
			}
		}
		objs := append([]any{recv}, ptrs...)
		for _, r := range results {
			if r.IsValid() && (r.Type() == typElem || r.Type() == typScal) && !r.IsNil() {
				objs = append(objs, r.Interface())
			}
		}
		for _, o := range objs {
			msg := ""
			switch v := o.(type) {
			case *secp256k1.Element:
				msg = elementValid(v)
			case *secp256k1.Scalar:
				msg = scalarValid(v)
			}
			if msg != "" {
				return fmt.Sprintf("%s: an object it touched is no longer a consistent value: %s", where, msg)
			}
		}
		if msg := packageSane(); msg != "" {
			return fmt.Sprintf("%s: %s", where, msg)
		}
		return ""
	}
	for _, m := range elem {
		for v, mk := range []func() *secp256k1.Element{secp256k1.NewElement, secp256k1.Base, func() *secp256k1.Element { return secp256k1.Base().Double() },
			func() *secp256k1.Element { g := secp256k1.Base().Double(); return g.Subtract(g) }} {
			if msg := call(mk(), m, v); msg != "" {
				return msg
			}
		}
	}
	for _, m := range scal {
		for v, mk := range []func() *secp256k1.Scalar{secp256k1.NewScalar, func() *secp256k1.Scalar { return secp256k1.NewScalar().One() },
			func() *secp256k1.Scalar { return secp256k1.NewScalar().SetUInt64(7) }, func() *secp256k1.Scalar { return secp256k1.NewScalar().MinusOne() },
			func() *secp256k1.Scalar { s := secp256k1.NewScalar().SetUInt64(9); return s.Subtract(s) }} {
			if msg := call(mk(), m, v); msg != "" {
				return msg
			}
		}
	}
	return ""
}

// ProbeFollowUps is the "history" part of the probe: an object on which a new method was called is then put through every
// sequence of up to three KNOWN operations, side by side with a twin - a fresh object decoded from the encoding the object showed
// right after the new call, which never met the new method. Whatever the new method is meant to do, from that point on both hold
// the same value and the known operations must treat them alike (Encode after every step; Bits for scalars). It returns a
// description of the first difference, or "".
func ProbeFollowUps() string {
	elem, scal := NewMethods()
	callNew := func(recv any, m reflect.Method, variant int) bool {
		args, _, _, ok := probeArgs(m, variant)
		if !ok {
			return false
		}
		func() {
			defer func() { _ = recover() }()
			m.Func.Call(append([]reflect.Value{reflect.ValueOf(recv)}, args...))
		}()
		return true
	}
	g, seven, big1 := secp256k1.Base(), secp256k1.NewScalar().SetUInt64(7), secp256k1.NewScalar().MinusOne()
	eops := []struct {
		name string
		f    func(e, o *secp256k1.Element) *secp256k1.Element
	}{
		{"Negate", func(e, _ *secp256k1.Element) *secp256k1.Element { return e.Negate() }},
		{"Double", func(e, _ *secp256k1.Element) *secp256k1.Element { return e.Double() }},
		{"Add(G)", func(e, _ *secp256k1.Element) *secp256k1.Element { return e.Add(g) }},
		{"Subtract(G)", func(e, _ *secp256k1.Element) *secp256k1.Element { return e.Subtract(g) }},
		{"Multiply(7)", func(e, _ *secp256k1.Element) *secp256k1.Element { return e.Multiply(seven) }},
		{"Multiply(n-1)", func(e, _ *secp256k1.Element) *secp256k1.Element { return e.Multiply(big1) }},
		{"Copy", func(e, _ *secp256k1.Element) *secp256k1.Element { return e.Copy() }},
		{"value-copy", func(e, _ *secp256k1.Element) *secp256k1.Element { c := *e; return &c }},
		{"Add(self)", func(e, _ *secp256k1.Element) *secp256k1.Element { return e.Add(e) }},
		// o: ANOTHER object (4G) on which the same new method was called (for the twin: a fresh object of that value)
		{"Add(other object that met the new method)", func(e, o *secp256k1.Element) *secp256k1.Element { return e.Add(o) }},
		{"Subtract(other object that met the new method)", func(e, o *secp256k1.Element) *secp256k1.Element { return e.Subtract(o) }},
	}
	one, three := secp256k1.NewScalar().One(), secp256k1.NewScalar().SetUInt64(3)
	sops := []struct {
		name string
		f    func(s, o *secp256k1.Scalar) *secp256k1.Scalar
	}{
		{"Add(1)", func(s, _ *secp256k1.Scalar) *secp256k1.Scalar { return s.Add(one) }},
		{"Subtract(1)", func(s, _ *secp256k1.Scalar) *secp256k1.Scalar { return s.Subtract(one) }},
		{"Multiply(3)", func(s, _ *secp256k1.Scalar) *secp256k1.Scalar { return s.Multiply(three) }},
		{"Square", func(s, _ *secp256k1.Scalar) *secp256k1.Scalar { return s.Square() }},
		{"Invert", func(s, _ *secp256k1.Scalar) *secp256k1.Scalar { return s.Invert() }},
		{"Copy", func(s, _ *secp256k1.Scalar) *secp256k1.Scalar { return s.Copy() }},
		{"value-copy", func(s, _ *secp256k1.Scalar) *secp256k1.Scalar { c := *s; return &c }},
		{"Add(other object that met the new method)", func(s, o *secp256k1.Scalar) *secp256k1.Scalar { return s.Add(o) }},
		{"Multiply(other object that met the new method)", func(s, o *secp256k1.Scalar) *secp256k1.Scalar { return s.Multiply(o) }},
	}
	seqs := func(n int) [][]int {
		var out [][]int
		for a := 0; a < n; a++ {
			out = append(out, []int{a})
			for b := 0; b < n; b++ {
				out = append(out, []int{a, b})
				for c := 0; c < n; c++ {
					out = append(out, []int{a, b, c})
				}
			}
		}
		return out
	}
	for _, m := range elem {
		for v, mk := range []func() *secp256k1.Element{secp256k1.NewElement, secp256k1.Base, func() *secp256k1.Element { return secp256k1.Base().Double() },
			func() *secp256k1.Element { return secp256k1.Base().Double().Add(secp256k1.Base()) }} {
			for _, seq := range seqs(len(eops)) {
				e := mk()
				if !callNew(e, m, v) {
					break
				}
				twin := secp256k1.NewElement()
				if err := twin.Decode(e.Encode()); err != nil {
					return fmt.Sprintf("after *Element.%s (variant %d) the receiver's encoding %x is rejected: %v", m.Name, v, e.Encode(), err)
				}
				other := secp256k1.Base().Double().Double()
				callNew(other, m, v+1)
				otherTwin := secp256k1.NewElement()
				if err := otherTwin.Decode(other.Encode()); err != nil {
					return fmt.Sprintf("after *Element.%s (variant %d) the receiver's encoding %x is rejected: %v", m.Name, v+1, other.Encode(), err)
				}
				hist := "*Element." + m.Name
				for _, op := range seq {
					e, twin = eops[op].f(e, other), eops[op].f(twin, otherTwin)
					hist += ", " + eops[op].name
					if a, b := e.Encode(), twin.Encode(); !bytes.Equal(a, b) {
						return fmt.Sprintf("history [%s] (receiver variant %d): the object shows %x, an object that held the same value after the first call and went through the same known operations shows %x", hist, v, a, b)
					}
				}
			}
		}
	}
	for _, m := range scal {
		for v, mk := range []func() *secp256k1.Scalar{secp256k1.NewScalar, func() *secp256k1.Scalar { return secp256k1.NewScalar().One() },
			func() *secp256k1.Scalar { return secp256k1.NewScalar().SetUInt64(7) }, func() *secp256k1.Scalar { return secp256k1.NewScalar().MinusOne() }} {
			for _, seq := range seqs(len(sops)) {
				s := mk()
				if !callNew(s, m, v) {
					break
				}
				twin := secp256k1.NewScalar()
				if err := twin.Decode(s.Encode()); err != nil {
					return fmt.Sprintf("after *Scalar.%s (variant %d) the receiver's encoding %x is rejected: %v", m.Name, v, s.Encode(), err)
				}
				other := secp256k1.NewScalar().SetUInt64(11)
				callNew(other, m, v+1)
				otherTwin := secp256k1.NewScalar()
				if err := otherTwin.Decode(other.Encode()); err != nil {
					return fmt.Sprintf("after *Scalar.%s (variant %d) the receiver's encoding %x is rejected: %v", m.Name, v+1, other.Encode(), err)
				}
				hist := "*Scalar." + m.Name
				for _, op := range seq {
					s, twin = sops[op].f(s, other), sops[op].f(twin, otherTwin)
					hist += ", " + sops[op].name
					if a, b := s.Encode(), twin.Encode(); !bytes.Equal(a, b) || s.Bits() != twin.Bits() {
						return fmt.Sprintf("history [%s] (receiver variant %d): the object shows %x, an object that held the same value after the first call and went through the same known operations shows %x (or their Bits differ)", hist, v, a, b)
					}
				}
			}
		}
	}
	return ""
}

// oneByteReader delivers the stream one byte per Read; dataErrReader delivers the last bytes together with io.EOF. Both are
// legal io.Readers for the same byte stream.
type oneByteReader struct{ r io.Reader }

func (o oneByteReader) Read(p []byte) (int, error) {
	if len(p) == 0 {
		return 0, nil
	}
	return o.r.Read(p[:1])
}

type dataErrReader struct {
	data []byte
}

func (d *dataErrReader) Read(p []byte) (int, error) {
	n := copy(p, d.data)
	d.data = d.data[n:]
	if len(d.data) == 0 {
		return n, io.EOF
	}
	return n, nil
}

// ProbeReaders checks every new method that takes an io.Reader: the outcome (error or not, the receiver's value afterwards) may
// depend on the BYTES of the stream only, not on how the reader cuts them into Read calls - in one piece, one byte at a time, or
// with the final bytes arriving together with io.EOF. It returns a description of the first difference, or "".
func ProbeReaders() string {
	elem, scal := NewMethods()
	g2 := ref.Double(ref.G())
	streams := [][]byte{ref.Compress(g2), ref.Uncompressed(g2), {0}, ref.Bytes32(big.NewInt(7)), append(ref.Compress(g2), 1, 2, 3, 4, 5, 6, 7),
		[]byte(fmt.Sprintf("%x", ref.Compress(g2))), append(ref.Bytes32(big.NewInt(7)), 9, 9, 9)}
	run := func(recv any, m reflect.Method, rd io.Reader) (ok bool, failed bool, enc []byte) {
		t := m.Type
		in := []reflect.Value{reflect.ValueOf(recv)}
		found := false
		for i := 1; i < t.NumIn(); i++ {
			pt := t.In(i)
			if pt.Kind() == reflect.Interface && typReader.Implements(pt) && !found {
				in = append(in, reflect.ValueOf(rd))
				found = true
				continue
			}
			one := reflect.Method{Name: m.Name, Type: reflect.FuncOf([]reflect.Type{t.In(0), pt}, nil, false)}
			args, _, _, aok := probeArgs(one, 0)
			if !aok || len(args) != 1 {
				return false, false, nil
			}
			in = append(in, args[0])
		}
		if !found {
			return false, false, nil
		}
		var results []reflect.Value
		panicked := false
		func() {
			defer func() {
				if recover() != nil {
					panicked = true
				}
			}()
			results = m.Func.Call(in)
		}()
		failed = panicked
		for _, r := range results {
			if r.IsValid() && r.Type().Implements(reflect.TypeOf((*error)(nil)).Elem()) && !r.IsNil() {
				failed = true
			}
		}
		switch v := recv.(type) {
		case *secp256k1.Element:
			enc = v.Encode()
		case *secp256k1.Scalar:
			enc = v.Encode()
		}
		return true, failed, enc
	}
	check := func(mk func() any, m reflect.Method, typ string) string {
		for _, s := range streams {
			ok, f0, e0 := run(mk(), m, bytes.NewReader(s))
			if !ok {
				return ""
			}
			for name, rd := range map[string]io.Reader{"one byte per Read": oneByteReader{bytes.NewReader(s)}, "the last bytes together with io.EOF": &dataErrReader{data: append([]byte(nil), s...)}} {
				_, f1, e1 := run(mk(), m, rd)
				if f0 != f1 || !bytes.Equal(e0, e1) {
					return fmt.Sprintf("%s.%s on the %d-byte stream %x: from a reader that delivers it in one piece it fails=%v and leaves the receiver at %x, from a reader that delivers %s it fails=%v and leaves %x", typ, m.Name, len(s), s, f0, e0, name, f1, e1)
				}
			}
		}
		return ""
	}
	for _, m := range elem {
		if msg := check(func() any { return secp256k1.Base() }, m, "*Element"); msg != "" {
			return msg
		}
	}
	for _, m := range scal {
		if msg := check(func() any { return secp256k1.NewScalar().SetUInt64(5) }, m, "*Scalar"); msg != "" {
			return msg
		}
	}
	return ""
}
