package pt

import (
	"crypto/rand"
	"errors"
	"sync"

	"github.com/bytemare/secp256k1"
)

// garbageThenError fills what it is given with garbage, delivers n bytes and fails.
type garbageThenError struct {
	n    int
	fill byte
}

func (r garbageThenError) Read(p []byte) (int, error) {
	for i := range p {
		p[i] = r.fill ^ byte(i*7)
	}
	return min(r.n, len(p)), errors.New("scripted entropy failure")
}

var (
	abuseMu    sync.Mutex
	abuseCount int
)

// RecoveredPanics makes the calls that panic - the documented ones (Random with a failing entropy source, hashing with an
// empty DST: nil, empty, zero length with capacity) and a caller's own mistakes (methods on nil receivers) - and recovers each
// one, like a server that survives a bad request. The package must be exactly as usable afterwards: the checks call this
// before one case in eight (always before the first case of a process, so that replays include it).
func RecoveredPanics() {
	abuseMu.Lock()
	defer abuseMu.Unlock()
	abuseCount++
	if abuseCount%8 != 1 {
		return
	}
	saved := rand.Reader
	for _, rd := range []garbageThenError{{0, 0xC3}, {16, 0x5A}, {31, 0xFF}} {
		rand.Reader = rd
		try(func() { secp256k1.NewScalar().Random() })
	}
	rand.Reader = saved
	backing := make([]byte, 80)
	for i := range backing {
		backing[i] = byte(0xA5 ^ i)
	}
	try(func() { secp256k1.HashToGroup([]byte("m"), backing[8:8]) })
	try(func() { secp256k1.EncodeToGroup([]byte("m"), []byte{}) })
	try(func() { secp256k1.HashToScalar(nil, nil) })
	try(func() { secp256k1.HashToScalar(backing[:4], backing[40:40:44]) })
	var ne *secp256k1.Element
	var ns *secp256k1.Scalar
	try(func() { ne.Add(secp256k1.Base()) })
	try(func() { _ = ne.Encode() })
	try(func() { ne.Multiply(secp256k1.NewScalar().One()) })
	try(func() { ns.Add(secp256k1.NewScalar().One()) })
	try(func() { _ = ns.Encode() })
	try(func() { ns.Invert() })
	try(func() { _ = ns.LessOrEqual(secp256k1.NewScalar()) })
	try(func() { _ = secp256k1.NewScalar().LessOrEqual(nil) })
	try(func() { _ = secp256k1.NewElement().Equal(nil) })
}
