package pt

import (
	"github.com/bytemare/secp256k1"
	"github.com/bytemare/secp256k1/verifharness/gen"
)

func init() { gen.ColdStart = exerciseAPI }

func try(f func()) {
	defer func() { _ = recover() }()
	f()
}

// exerciseAPI makes one call of every public API function, each guarded by recover (see gen.Main).
func exerciseAPI() {
	dst := []byte("VERIF-cold-start-dst")
	g := secp256k1.Base()
	k := secp256k1.NewScalar().SetUInt64(7)
	enc, unc := []byte(nil), []byte(nil)
	try(func() { enc = g.Encode() })
	try(func() { unc = g.EncodeUncompressed() })
	try(func() { _ = g.Hex() })
	try(func() { _ = g.XCoordinate() })
	try(func() { _, _ = g.MarshalBinary() })
	try(func() { _ = secp256k1.NewElement().Decode(enc) })
	try(func() { _ = secp256k1.NewElement().Decode(unc) })
	try(func() { _ = secp256k1.NewElement().DecodeHex(g.Hex()) })
	try(func() { _ = secp256k1.NewElement().UnmarshalBinary(enc) })
	try(func() { _ = secp256k1.NewElement().Decode([]byte{0}) })
	try(func() { secp256k1.Base().Multiply(k) })
	try(func() { secp256k1.Base().Double().Multiply(k) })
	try(func() { secp256k1.Base().Add(g).Subtract(g).Double().Negate() })
	try(func() { _ = g.Equal(secp256k1.Base().Double()); _ = g.IsIdentity() })
	try(func() { _ = g.Copy().Set(g).Identity() })
	try(func() { _ = secp256k1.NewScalar().Random() })
	try(func() { _ = k.Encode(); _ = k.Hex(); _, _ = k.MarshalBinary(); _ = k.Bits() })
	try(func() { _ = secp256k1.NewScalar().Decode(k.Encode()) })
	try(func() { _ = secp256k1.NewScalar().DecodeHex(k.Hex()) })
	try(func() { k.Copy().Add(k).Subtract(k).Multiply(k).Square().Invert().Pow(k) })
	try(func() { _ = k.Equal(k); _ = k.LessOrEqual(k); _ = k.IsZero(); _ = k.IsOne() })
	try(func() { _ = secp256k1.NewScalar().CSelect(1, k, k) })
	try(func() { _ = secp256k1.NewScalar().MinusOne().Zero().One() })
	try(func() { _ = secp256k1.HashToGroup([]byte("m"), dst) })
	try(func() { _ = secp256k1.EncodeToGroup([]byte("m"), dst) })
	try(func() { _ = secp256k1.HashToScalar([]byte("m"), dst) })
	try(func() { _ = secp256k1.Order() })
}
