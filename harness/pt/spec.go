// Package pt builds group elements of the package under test in many internal representations from a
// serialisable specification, together with their value in the reference model.
package pt

import (
	"encoding/json"
	"fmt"
	"math/big"
	"sync"

	"github.com/bytemare/secp256k1"
	"github.com/bytemare/secp256k1/verifharness/gen"
	"github.com/bytemare/secp256k1/verifharness/ref"
	"pgregory.net/rapid"
)

var (
	rP    = new(big.Int).Mod(new(big.Int).Lsh(big.NewInt(1), 256), ref.P) // Montgomery R mod p
	rPInv = new(big.Int).ModInverse(rP, ref.P)
	one   = big.NewInt(1)
)

// Base names a group element by data only.
type Base struct {
	Kind string `json:"kind"`           // id | g | kg | liftx
	K    int    `json:"k,omitempty"`    // kg: multiplier 2..20
	X    string `json:"x,omitempty"`    // liftx: first on-curve abscissa >= X
	Odd  bool   `json:"odd,omitempty"`  // liftx: parity of y
	Endo int    `json:"endo,omitempty"` // apply (x,y) -> (beta^Endo x, y)
	Neg  bool   `json:"neg,omitempty"`  // negate
	Via  string `json:"via,omitempty"`  // how the implementation value is created: coords | comp | uncomp
	// Reuse: the receiver object held another point before and was already serialised and compared when the
	// value is decoded into it (object history must not matter).
	Reuse bool `json:"reuse,omitempty"`
	// ZeroRecv: the value is set into a zero-value struct (`new(secp256k1.Element)`) rather than into NewElement().
	ZeroRecv bool `json:"zero_recv,omitempty"`
	// Home > 0: where the finished object lives (a Go value copy into a slice element, a struct field, an array in a struct)
	Home int `json:"home,omitempty"`
	// RHS (kind "rhs"): the abscissa is SOLVED so that the right-hand side x^3 + 7 of the curve equation, as the Montgomery limbs the
	// code holds, is the first suitable value at or below this target (boundary patterns: just below p, word boundaries ...)
	RHS string `json:"rhs,omitempty"`
}

// SolveRHS returns a point whose x^3 + 7, in Montgomery form, is the largest value <= target for which a point exists.
func SolveRHS(target *big.Int) (ref.Point, bool) {
	t := new(big.Int).Mod(target, ref.P)
	// a target whose low limb is all zeros or all ones keeps that limb: the search then walks the upper limbs
	step := big.NewInt(1)
	if low := new(big.Int).And(t, new(big.Int).SetUint64(^uint64(0))); low.Sign() == 0 || low.IsUint64() && low.Uint64() == ^uint64(0) {
		step = new(big.Int).Lsh(one, 64)
	}
	for i := 0; i < 400; i++ {
		v := new(big.Int).Mod(new(big.Int).Mul(t, rPInv), ref.P) // canonical value whose Montgomery form is t
		if ref.IsSquare(v) {
			if x := cubeRootP(new(big.Int).Mod(new(big.Int).Sub(v, big.NewInt(7)), ref.P)); x != nil {
				if even, _, ok := ref.LiftX(x); ok {
					return even, true
				}
			}
		}
		t.Sub(t, step)
		if t.Sign() < 0 {
			t.Add(t, ref.P)
		}
	}
	return ref.Point{}, false
}

// cubeRootP returns a cube root of a in F_p (p = 7 mod 9), or nil.
func cubeRootP(a *big.Int) *big.Int {
	e := new(big.Int).Div(new(big.Int).Add(ref.P, big.NewInt(2)), big.NewInt(9))
	r := new(big.Int).Exp(a, e, ref.P)
	for i := 0; i < 3; i++ {
		if c := new(big.Int).Exp(r, big.NewInt(3), ref.P); c.Cmp(new(big.Int).Mod(a, ref.P)) == 0 {
			return r
		}
		r.Mul(r, ref.Beta).Mod(r, ref.P)
	}
	return nil
}

// Step is one value-preserving representation change.
type Step struct {
	Op string `json:"op"`
	A  string `json:"a,omitempty"`
	J  int    `json:"j,omitempty"`
}

// Spec is a point plus a representation recipe.
type Spec struct {
	Base  Base   `json:"base"`
	Steps []Step `json:"steps,omitempty"`
}

// Point is the value of the base in the reference model.
func (b Base) Point() ref.Point {
	var p ref.Point
	switch b.Kind {
	case "id":
		return ref.Infinity()
	case "g":
		p = ref.G()
	case "kg":
		p = ref.Mul(big.NewInt(int64(b.K)), ref.G())
	case "liftx":
		x := gen.B(b.X)
		x.Mod(x, ref.P)
		for {
			even, odd, ok := ref.LiftX(x)
			if ok {
				p = even
				if b.Odd {
					p = odd
				}
				break
			}
			x.Add(x, one)
			x.Mod(x, ref.P)
		}
	case "lifty":
		// a point with a chosen ORDINATE: the first y >= X (mod p) for which x = cbrt(y^2 - 7) exists (y = 1, -1, the cube roots of
		// unity, small multiplicative orders: where powers of y return to 1)
		y := new(big.Int).Mod(gen.B(b.X), ref.P)
		p = ref.G()
		for i := 0; i < 400; i++ {
			if x := cubeRootP(new(big.Int).Mod(new(big.Int).Sub(new(big.Int).Mul(y, y), big.NewInt(7)), ref.P)); x != nil && y.Sign() != 0 {
				p = ref.Point{X: x, Y: new(big.Int).Set(y)}
				break
			}
			y.Add(y, one).Mod(y, ref.P)
		}
	case "rhs":
		q, ok := SolveRHS(gen.B(b.RHS))
		if !ok {
			q = ref.G()
		}
		p = q
		if b.Odd {
			p = ref.Neg(q)
		}
	case "line-p", "line-q":
		// two distinct points P, Q on a common line of slope K through P = lift_x(first suitable x >= X)
		pp, qq := LinePair(gen.B(b.X), b.Odd, int64(b.K))
		p = pp
		if b.Kind == "line-q" {
			p = qq
		}
	default:
		panic("pt: unknown base kind " + b.Kind)
	}
	for i := 0; i < b.Endo%3; i++ {
		p = ref.Endo(p)
	}
	if b.Neg {
		p = ref.Neg(p)
	}
	return p
}

// Built is an element of the implementation with everything the oracles need to know about it.
type Built struct {
	E        *secp256k1.Element
	Want     ref.Point // value according to the specification
	Model    ref.Point // value the raw coordinates denote (white-box), else Want
	RawKnown bool      // raw coordinates were read
	RawValid bool      // raw coordinates are a valid projective point
	ZIsOne   bool
	StdIdent bool // identity stored as (0:1:0)
	X, Y, Z  *big.Int
}

// Consistent reports whether the representation denotes the specified value (always true API-only).
func (b *Built) Consistent() bool {
	return !b.RawKnown || (b.RawValid && b.Model.Equal(b.Want))
}

// BuilderError is returned when the recipe itself cannot be carried out (a valid encoding is rejected...).
type BuilderError struct{ Msg string }

func (e *BuilderError) Error() string { return "builder: " + e.Msg }

// FromModel creates an element with Z = 1 from a model point.
func FromModel(p ref.Point, via string) (*secp256k1.Element, error) {
	return fromModelInto(secp256k1.NewElement(), p, via)
}

// usedElement returns an element object with a history: it holds 5G (Z != 1) and was serialised, compared
// and tested before.
func usedElement() *secp256k1.Element {
	e := secp256k1.Base().Double().Double().Add(secp256k1.Base())
	_ = e.Encode()
	_ = e.EncodeUncompressed()
	_ = e.Hex()
	_ = e.XCoordinate()
	_ = e.Equal(secp256k1.Base())
	_ = e.IsIdentity()
	return e
}

func fromModelInto(e *secp256k1.Element, p ref.Point, via string) (*secp256k1.Element, error) {
	if p.Inf {
		// the identity is set into the receiver through one of its setters
		switch via {
		case "comp", "uncomp":
			if err := e.Decode([]byte{0}); err != nil {
				return nil, &BuilderError{Msg: "Decode(00) rejected: " + err.Error()}
			}
			return e, nil
		case "mulnil":
			return e.Multiply(nil), nil
		}
		return e.Identity(), nil
	}
	var err error
	switch via {
	case "limbs":
		// white-box: the coordinates are written as Montgomery limbs computed by the model (no decoder of the tree under test is
		// involved in building the operand); API-only builds fall back to DecodeCoordinates
		if Calibrated() {
			setRawLimbs(e, toMont(p.X), toMont(p.Y), toMont(big.NewInt(1)))
			return e, nil
		}
		err = e.DecodeCoordinates([32]byte(ref.Bytes32(p.X)), [32]byte(ref.Bytes32(p.Y)))
	case "comp":
		err = e.Decode(ref.Compress(p))
	case "uncomp":
		err = e.Decode(ref.Uncompressed(p))
	default:
		err = e.DecodeCoordinates([32]byte(ref.Bytes32(p.X)), [32]byte(ref.Bytes32(p.Y)))
	}
	if err != nil {
		return nil, &BuilderError{Msg: fmt.Sprintf("valid point %s rejected via %q: %v", p, via, err)}
	}
	return e, nil
}

func toMont(v *big.Int) [4]uint64 {
	return gen.ToLimbs(new(big.Int).Mod(new(big.Int).Mul(v, rP), ref.P))
}

func fromMont(l [4]uint64) (*big.Int, bool) {
	m := gen.FromLimbs(l)
	ok := m.Cmp(ref.P) < 0
	return m.Mod(m.Mul(m, rPInv), ref.P), ok
}

var (
	calOnce    sync.Once
	calibrated bool
	calNote    string
)

// Calibrated reports whether white-box coordinate access is available and means what the harness assumes
// (homogeneous projective coordinates, identity <=> z = 0).
func Calibrated() bool {
	calOnce.Do(func() {
		if !WhiteBox {
			calNote = "api-only build"
			return
		}
		defer func() {
			if r := recover(); r != nil {
				calibrated, calNote = false, fmt.Sprint("calibration panicked: ", r)
			}
		}()
		e := secp256k1.Base().Double().Add(secp256k1.Base())
		x, y, z := rawLimbs(e)
		X, ok1 := fromMont(x)
		Y, ok2 := fromMont(y)
		Z, ok3 := fromMont(z)
		if !ok1 || !ok2 || !ok3 || Z.Sign() == 0 {
			calNote = "raw coordinates of 3G not canonical or z = 0"
			return
		}
		zi := ref.FInv0(Z)
		p := ref.Point{X: ref.FMul(X, zi), Y: ref.FMul(Y, zi)}
		if !p.Equal(ref.Mul(big.NewInt(3), ref.G())) {
			calNote = "coordinates are not homogeneous projective"
			return
		}
		_, _, iz := rawLimbs(secp256k1.NewElement())
		if IZ, _ := fromMont(iz); IZ.Sign() != 0 {
			calNote = "identity does not have z = 0"
			return
		}
		// write access: re-scaling must preserve the encoding
		c := e.Copy()
		l := big.NewInt(5)
		setRawLimbs(c, toMont(ref.FMul(X, l)), toMont(ref.FMul(Y, l)), toMont(ref.FMul(Z, l)))
		if string(c.Encode()) != string(e.Encode()) {
			calNote = "re-scaling changes the encoding"
			return
		}
		calibrated, calNote = true, "white-box access calibrated"
	})
	return calibrated
}

// CalibrationNote describes the outcome of Calibrated.
func CalibrationNote() string { Calibrated(); return calNote }

// Inspect reads the raw representation of e (when calibrated) and fills a Built.
func Inspect(e *secp256k1.Element, want ref.Point) *Built {
	b := &Built{E: e, Want: want, Model: want}
	if !Calibrated() {
		return b
	}
	x, y, z := rawLimbs(e)
	X, ok1 := fromMont(x)
	Y, ok2 := fromMont(y)
	Z, ok3 := fromMont(z)
	b.RawKnown, b.X, b.Y, b.Z = true, X, Y, Z
	b.ZIsOne = Z.Cmp(one) == 0
	if !ok1 || !ok2 || !ok3 {
		return b
	}
	// Y^2 Z = X^3 + 7 Z^3 and not (0:0:0)
	lhs := ref.FMul(ref.FMul(Y, Y), Z)
	z3 := ref.FMul(ref.FMul(Z, Z), Z)
	rhs := ref.FAdd(ref.FMul(ref.FMul(X, X), X), ref.FMul(big.NewInt(7), z3))
	if lhs.Cmp(rhs) != 0 || (X.Sign() == 0 && Y.Sign() == 0 && Z.Sign() == 0) {
		return b
	}
	b.RawValid = true
	if Z.Sign() == 0 {
		b.Model = ref.Infinity()
		b.StdIdent = X.Sign() == 0 && Y.Cmp(one) == 0
		return b
	}
	zi := ref.FInv0(Z)
	b.Model = ref.Point{X: ref.FMul(X, zi), Y: ref.FMul(Y, zi)}
	return b
}

// SetRaw installs projective coordinates (canonical integers < p); white-box only.
func SetRaw(e *secp256k1.Element, X, Y, Z *big.Int) {
	setRawLimbs(e, toMont(X), toMont(Y), toMont(Z))
}

func smallMultiple(j int) *secp256k1.Element {
	q := secp256k1.Base()
	g := secp256k1.Base()
	for i := 1; i < j; i++ {
		q.Add(g)
	}
	return q
}

func scalarOf(v *big.Int) *secp256k1.Scalar {
	s := secp256k1.NewScalar()
	if err := s.Decode(ref.Bytes32(v)); err != nil {
		panic("pt: canonical scalar rejected: " + err.Error())
	}
	return s
}

// apply carries out one step on e (whose current model value is cur).
func apply(e *secp256k1.Element, st Step, cur ref.Point) (*secp256k1.Element, error) {
	if len(st.Op) > 3 && st.Op[:3] == "id:" {
		if !cur.Inf {
			return e, nil // identity recipes only apply to the identity
		}
		switch st.Op {
		case "id:p-p":
			p := smallMultiple(1 + st.J%5)
			if st.J%2 == 1 {
				p.Double()
			}
			return p.Subtract(p.Copy()), nil
		case "id:p+negp":
			p := smallMultiple(1 + st.J%5).Double()
			return p.Add(p.Copy().Negate()), nil
		case "id:mul0":
			return smallMultiple(1 + st.J%5).Multiply(secp256k1.NewScalar()), nil
		case "id:kn-k":
			k := new(big.Int).Mod(gen.B(st.A), ref.N)
			p := smallMultiple(1 + st.J%3)
			a := p.Copy().Multiply(scalarOf(k))
			b := p.Copy().Multiply(scalarOf(new(big.Int).Mod(new(big.Int).Neg(k), ref.N)))
			return a.Add(b), nil
		case "id:o-o":
			return secp256k1.NewElement().Subtract(secp256k1.NewElement()), nil
		case "id:decode00":
			r := secp256k1.Base()
			if err := r.Decode([]byte{0}); err != nil {
				return nil, &BuilderError{Msg: "Decode(00) rejected: " + err.Error()}
			}
			return r, nil
		case "id:mulnil":
			return secp256k1.Base().Multiply(nil), nil
		case "id:wb":
			if !Calibrated() {
				return e, nil
			}
			y := new(big.Int).Mod(gen.B(st.A), ref.P)
			if y.Sign() == 0 {
				y = big.NewInt(1)
			}
			SetRaw(e, new(big.Int), y, new(big.Int))
			return e, nil
		}
		panic("pt: unknown identity step " + st.Op)
	}
	switch st.Op {
	case "addO":
		return e.Add(secp256k1.NewElement()), nil
	case "Oadd":
		return secp256k1.NewElement().Add(e), nil
	case "subO":
		return e.Subtract(secp256k1.NewElement()), nil
	case "addsub":
		q := smallMultiple(1 + st.J%6)
		return e.Add(q).Subtract(q), nil
	case "subadd":
		q := smallMultiple(1 + st.J%6)
		return e.Subtract(q).Add(q), nil
	case "dblsub":
		o := e.Copy()
		return e.Double().Subtract(o), nil
	case "negneg":
		return e.Negate().Negate(), nil
	case "dblhalf":
		half := new(big.Int).Rsh(new(big.Int).Add(ref.N, one), 1)
		return e.Multiply(scalarOf(half)).Double(), nil
	case "mulinv":
		k := new(big.Int).Mod(gen.B(st.A), ref.N)
		if k.Sign() == 0 {
			k = big.NewInt(2)
		}
		return e.Multiply(scalarOf(k)).Multiply(scalarOf(new(big.Int).ModInverse(k, ref.N))), nil
	case "decenc":
		r := secp256k1.NewElement()
		if err := r.Decode(e.Encode()); err != nil {
			return nil, &BuilderError{Msg: "Decode(Encode) rejected: " + err.Error()}
		}
		return r, nil
	case "decunc":
		if cur.Inf {
			return e, nil
		}
		r := secp256k1.NewElement()
		if err := r.Decode(e.EncodeUncompressed()); err != nil {
			return nil, &BuilderError{Msg: "Decode(EncodeUncompressed) rejected: " + err.Error()}
		}
		return r, nil
	case "selfdec", "selfdecunc":
		// decode the element's own encoding into the same object, after it was serialised both ways
		comp, unc := e.Encode(), e.EncodeUncompressed()
		data := comp
		if st.Op == "selfdecunc" {
			data = unc
		}
		if err := e.Decode(data); err != nil {
			return nil, &BuilderError{Msg: "Decode of own encoding rejected: " + err.Error()}
		}
		return e, nil
	case "observe":
		// read-only observers: they must not change what the element is (nor any hidden state that later operations use)
		_ = e.Encode()
		_ = e.Hex()
		_, _ = e.MarshalBinary()
		_ = e.XCoordinate()
		_ = e.EncodeUncompressed()
		_ = e.IsIdentity()
		_ = e.Equal(secp256k1.Base())
		// formatting and generic marshalling go through whatever interfaces the type implements (Stringer, Formatter,
		// TextMarshaler, json.Marshaler ...): printing a value in a log line must not change it either
		_ = fmt.Sprintf(observeVerbs, e, e, e, e, e)
		_ = fmt.Sprint(e, *e)
		_, _ = json.Marshal(e)
		return e, nil
	case "structcopy":
		// a Go-level copy by struct assignment, then the original is changed: the copy must be independent
		c := *e
		e.Double().Negate()
		return &c, nil
	case "valcopy-a":
		// the element is looked at (whatever that caches), copied by Go value copy, and the ORIGINAL is negated in place: the
		// copy keeps the value in every respect
		if _, err := apply(e, Step{Op: "observe"}, cur); err != nil {
			return nil, err
		}
		c := *e
		e.Negate()
		return &c, nil
	case "valcopy-b":
		// ... and the other way round: the COPY is negated, the original is used
		if _, err := apply(e, Step{Op: "observe"}, cur); err != nil {
			return nil, err
		}
		_ = secp256k1.Base().Subtract(e) // (the element also served as an argument)
		c := *e
		c.Negate()
		_ = c.Encode()
		return e, nil
	case "copy":
		return e.Copy(), nil
	case "set":
		return secp256k1.Base().Set(e), nil
	case "target":
		// re-scale so that one raw coordinate takes a chosen value (J&3 selects x, y or z; J&4: the value is
		// given as Montgomery limbs, i.e. the stored limbs themselves take the pattern)
		if !Calibrated() {
			return e, nil
		}
		b := Inspect(e, cur)
		if !b.RawKnown {
			return e, nil
		}
		tgt := new(big.Int).Mod(gen.B(st.A), ref.P)
		if st.J&4 != 0 {
			tgt.Mod(tgt.Mul(tgt, rPInv), ref.P)
		}
		coord := []*big.Int{b.X, b.Y, b.Z}[(st.J&3)%3]
		if tgt.Sign() == 0 || coord.Sign() == 0 {
			return e, nil
		}
		l := ref.FMul(tgt, ref.FInv0(coord))
		SetRaw(e, ref.FMul(b.X, l), ref.FMul(b.Y, l), ref.FMul(b.Z, l))
		return e, nil
	case "rescale":
		if !Calibrated() {
			return e, nil
		}
		l := new(big.Int).Mod(gen.B(st.A), ref.P)
		if l.Sign() == 0 {
			l = big.NewInt(2)
		}
		b := Inspect(e, cur)
		if !b.RawKnown {
			return e, nil
		}
		SetRaw(e, ref.FMul(b.X, l), ref.FMul(b.Y, l), ref.FMul(b.Z, l))
		return e, nil
	}
	panic("pt: unknown step " + st.Op)
}

// Build carries out the specification.
type elementBox struct {
	pad [5]uint64
	E   secp256k1.Element
	tag byte
	A   [2]secp256k1.Element
}

// rehome moves the value of e (Go value copy) into an element of a slice, a field of a larger struct or an array inside one:
// methods must not care where their receiver lives.
func rehome(e *secp256k1.Element, home int) *secp256k1.Element {
	switch home {
	case 1:
		arr := make([]secp256k1.Element, 3)
		arr[1] = *e
		return &arr[1]
	case 2:
		b := &elementBox{}
		b.E = *e
		return &b.E
	case 3:
		b := &elementBox{}
		b.A[1] = *e
		return &b.A[1]
	}
	return e
}

func Build(s Spec) (*Built, error) {
	want := s.Base.Point()
	recv := secp256k1.NewElement()
	if s.Base.Reuse {
		recv = usedElement()
	}
	if s.Base.ZeroRecv {
		recv = new(secp256k1.Element) // a zero-value struct as receiver of the setter (it holds no group element yet)
	}
	e, err := fromModelInto(recv, want, s.Base.Via)
	if err != nil {
		return nil, err
	}
	for _, st := range s.Steps {
		if e, err = apply(e, st, want); err != nil {
			return nil, err
		}
	}
	return Inspect(rehome(e, s.Base.Home), want), nil
}

// ---------------------------------------------------------------------------------------------------

// observeVerbs are the formatting verbs the observe step prints an element with (a variable, so that vet does not mind %s).
var observeVerbs = "%v %+v %s %x %d"

var (
	stepsAny  = []string{"addO", "Oadd", "subO", "addsub", "subadd", "dblsub", "negneg", "decenc", "decunc", "selfdec", "selfdecunc", "copy", "set", "structcopy", "valcopy-a", "valcopy-b", "observe", "observe", "rescale", "rescale", "target", "target"}
	stepsSlow = []string{"dblhalf", "mulinv"}
	stepsID   = []string{"observe", "id:p-p", "id:p+negp", "id:mul0", "id:kn-k", "id:o-o", "id:decode00", "id:mulnil", "id:wb", "id:wb"}
)

// StepGen draws one step; identity selects the identity recipes.
func StepGen(identity, allowSlow bool) *rapid.Generator[Step] {
	return rapid.Custom(func(t *rapid.T) Step {
		var op string
		switch {
		case identity && rapid.IntRange(0, 3).Draw(t, "idstep") > 0:
			op = rapid.SampledFrom(stepsID).Draw(t, "op")
		case allowSlow && rapid.IntRange(0, 19).Draw(t, "slow") == 0:
			op = rapid.SampledFrom(stepsSlow).Draw(t, "op")
		default:
			op = rapid.SampledFrom(stepsAny).Draw(t, "op")
		}
		st := Step{Op: op}
		switch op {
		case "rescale", "id:wb":
			st.A = gen.H(gen.NonZeroInt(ref.P).Draw(t, "lambda"))
		case "target":
			st.A = gen.H(gen.NonZeroInt(ref.P).Draw(t, "target"))
			st.J = rapid.IntRange(0, 2).Draw(t, "coord")
			if rapid.Bool().Draw(t, "montTarget") {
				st.J |= 4
			}
			if gen.Chance(t, "nearOne", 1, 4) {
				// stored limbs in the word-wise neighbourhood of the Montgomery form of 1 (what "is it normalised?" tests see)
				v := gen.PerturbWords(t, rP, 64)
				if v.Sign() != 0 && v.Cmp(ref.P) < 0 {
					st.A, st.J = gen.H(v), (st.J&3)|4
				}
			}
		case "mulinv", "id:kn-k":
			st.A = gen.H(gen.NonZeroInt(ref.N).Draw(t, "k"))
			st.J = rapid.IntRange(0, 5).Draw(t, "j")
		case "addsub", "subadd", "id:p-p", "id:p+negp", "id:mul0":
			st.J = rapid.IntRange(0, 9).Draw(t, "j")
		}
		return st
	})
}

// BaseGen draws a base point.
func BaseGen() *rapid.Generator[Base] {
	return rapid.Custom(func(t *rapid.T) Base {
		b := Base{}
		switch rapid.IntRange(0, 9).Draw(t, "baseKind") {
		case 0:
			b.Kind = "id"
			b.ZeroRecv = gen.Chance(t, "zeroRecvId", 1, 3)
			b.Via = rapid.SampledFrom([]string{"coords", "comp", "mulnil"}).Draw(t, "idVia")
			return b
		case 1:
			b.Kind = "g"
		case 2:
			b.Kind = "kg"
			b.K = rapid.IntRange(2, 20).Draw(t, "k")
		default:
			b.Kind = "liftx"
			b.X = gen.H(gen.Int(ref.P).Draw(t, "x"))
			b.Odd = rapid.Bool().Draw(t, "odd")
		}
		if rapid.IntRange(0, 7).Draw(t, "endo") == 0 {
			b.Endo = rapid.IntRange(1, 2).Draw(t, "e")
		}
		b.Neg = rapid.IntRange(0, 7).Draw(t, "neg") == 0
		b.Via = rapid.SampledFrom([]string{"coords", "comp", "uncomp", "limbs"}).Draw(t, "via")
		b.Reuse = gen.Chance(t, "reuse", 1, 4)
		b.ZeroRecv = !b.Reuse && gen.Chance(t, "zeroRecv", 1, 5)
		if gen.Chance(t, "home", 1, 6) {
			b.Home = 1 + gen.Pick(t, "homeKind", 3)
		}
		if gen.Chance(t, "lifty", 1, 12) {
			b.Kind = "lifty"
			b.X = gen.H(gen.Int(ref.P).Draw(t, "y"))
		}
		if gen.Chance(t, "rhs", 1, 12) {
			// the Montgomery limbs of x^3 + 7: just below p, or a boundary-biased value
			b.Kind = "rhs"
			tgt := new(big.Int).Sub(ref.P, new(big.Int).SetUint64(1+gen.U64(t, "rhsBelow")>>uint(rapid.IntRange(40, 63).Draw(t, "rhsSh"))))
			if rapid.Bool().Draw(t, "rhsAny") {
				tgt = gen.Int(ref.P).Draw(t, "rhsT")
			}
			b.RHS = gen.H(tgt)
		}
		return b
	})
}

// SpecGen draws a point specification with 0..maxSteps representation steps.
func SpecGen(maxSteps int, allowSlow bool) *rapid.Generator[Spec] {
	return rapid.Custom(func(t *rapid.T) Spec {
		return WithSteps(t, BaseGen().Draw(t, "base"), maxSteps, allowSlow)
	})
}

// WithSteps draws a recipe for the given base.
func WithSteps(t *rapid.T, b Base, maxSteps int, allowSlow bool) Spec {
	s := Spec{Base: b}
	n := rapid.IntRange(0, maxSteps).Draw(t, "nsteps")
	for i := 0; i < n; i++ {
		s.Steps = append(s.Steps, StepGen(b.Kind == "id", allowSlow).Draw(t, "step"))
	}
	return s
}

// LinePair returns two distinct curve points P != Q lying on a common line of slope m (so that
// y_Q - y_P = m (x_Q - x_P)), with P = lift_x of the first suitable abscissa >= x0. The abscissae of the three
// intersections of a line of slope m with the curve sum to m^2 and multiply to (y1 - m x1)^2 - 7.
func LinePair(x0 *big.Int, odd bool, m int64) (ref.Point, ref.Point) {
	x := new(big.Int).Mod(x0, ref.P)
	slope := new(big.Int).Mod(big.NewInt(m), ref.P)
	for {
		even, oddP, ok := ref.LiftX(x)
		if ok {
			p := even
			if odd {
				p = oddP
			}
			// x2 + x3 = m^2 - x1 ; x2 x3 = ((y1 - m x1)^2 - 7) / x1
			sum := ref.FSub(ref.FMul(slope, slope), p.X)
			c := ref.FSub(p.Y, ref.FMul(slope, p.X))
			prod := ref.FMul(ref.FSub(ref.FMul(c, c), big.NewInt(7)), ref.FInv0(p.X))
			disc := ref.FSub(ref.FMul(sum, sum), ref.FMul(big.NewInt(4), prod))
			if disc.Sign() != 0 && ref.IsSquare(disc) {
				r := ref.Sqrt(disc)
				x2 := ref.FMul(ref.FAdd(sum, r), ref.FInv0(big.NewInt(2)))
				y2 := ref.FAdd(p.Y, ref.FMul(slope, ref.FSub(x2, p.X)))
				q := ref.Point{X: x2, Y: y2}
				if ref.OnCurve(x2, y2) && !q.Equal(p) {
					return p, q
				}
			}
		}
		x.Add(x, one)
		x.Mod(x, ref.P)
	}
}

// ApplyStep carries out one representation step on e, whose current model value is cur (for stateful checks).
func ApplyStep(e *secp256k1.Element, st Step, cur ref.Point) (*secp256k1.Element, error) {
	return apply(e, st, cur)
}
