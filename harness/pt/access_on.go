//go:build verif_access

package pt

import "github.com/bytemare/secp256k1"

// WhiteBox reports whether the accessor overlay was compiled in.
const WhiteBox = true

func rawLimbs(e *secp256k1.Element) (x, y, z [4]uint64) { return secp256k1.VerifLimbs(e) }

func setRawLimbs(e *secp256k1.Element, x, y, z [4]uint64) { secp256k1.VerifSetLimbs(e, x, y, z) }

// ExpandXMD calls the package's expander with a chosen length (white-box builds only).
func ExpandXMD(msg, dst []byte, n uint) ([]byte, bool) {
	return secp256k1.VerifExpandXMD(msg, dst, n), true
}
