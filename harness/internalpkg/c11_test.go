package internalpkg

import (
	"bytes"
	"math/big"
	"testing"

	"github.com/bytemare/secp256k1"
	"github.com/bytemare/secp256k1/verifharness/gen"
	"github.com/bytemare/secp256k1/verifharness/pt"
	"github.com/bytemare/secp256k1/verifharness/ref"
	"pgregory.net/rapid"
)

// C11: the simplified SWU map and the 3-isogeny are total and RFC-exact on every field element.

type caseC11 struct {
	U FV `json:"u"`
}

// affineOf reads the affine coordinates of an element with z = 1 as produced by SSWU / the isogeny.
// EncodeUncompressed performs no curve check, so it also serialises points of the isogenous curve.
func affineOf(e *secp256k1.Element) (x, y *big.Int, ok bool) {
	b := e.EncodeUncompressed()
	if len(b) != 65 {
		return nil, nil, false
	}
	return ref.OS2IP(b[1:33]), ref.OS2IP(b[33:]), true
}

var c11 = gen.Register(&gen.Check[caseC11]{
	Name: "C11/sswu",
	Gen: func(t *rapid.T) caseC11 {
		if gen.Chance(t, "exceptional", 1, 16) {
			return caseC11{U: fv(rapid.SampledFrom(ref.ExceptionalU()).Draw(t, "exc"))}
		}
		return caseC11{U: FVGen().Draw(t, "u")}
	},
	Fixed: func() []caseC11 {
		var out []caseC11
		for _, u := range ref.ExceptionalU() {
			out = append(out, caseC11{U: fv(u)})
		}
		for _, u := range []*big.Int{bigOne, big.NewInt(2), pm1, new(big.Int).Sub(ref.P, big.NewInt(2))} {
			out = append(out, caseC11{U: fv(u)})
		}
		return out
	},
	Required: []string{"exceptional", "gx1square=true,signflip=true", "gx1square=true,signflip=false", "gx1square=false,signflip=true", "gx1square=false,signflip=false"},
	Run: func(c caseC11, o *gen.Obs) error {
		u := c.U.Value()
		fe := c.U.Build()
		fe0 := fe.E
		wx, wy, tr := ref.SSWU(u)
		o.ClassIf(tr.Exceptional, "exceptional")
		o.Class("gx1square=%v,signflip=%v", tr.Gx1Square, tr.SignFlipped)
		o.NonTrivial()
		q := secp256k1.SSWU(fe)
		if fe.E != fe0 {
			return gen.Fail("SSWU/mutates-input", "SSWU changed its argument")
		}
		x, y, ok := affineOf(q)
		if !ok {
			return gen.Fail("SSWU/no-affine", "SSWU(%x) has no affine coordinates", u)
		}
		site := "SSWU"
		if tr.Exceptional {
			site = "SSWU/exceptional"
		}
		if !ref.OnIso(x, y) {
			return gen.Fail(site+"/off-curve", "SSWU(%x) = (%x, %x) is not on E'", u, x, y)
		}
		if ref.Sgn0(y) != ref.Sgn0(u) {
			return gen.Fail(site+"/sign", "sgn0(y) != sgn0(u) for u=%x: y=%x", u, y)
		}
		if x.Cmp(wx) != 0 || y.Cmp(wy) != 0 {
			return gen.Fail(site+"/value", "SSWU(%x) = (%x, %x), RFC 9380 6.6.2 gives (%x, %x)", u, x, y, wx, wy)
		}
		// SSWU(-u) = -SSWU(u) for u != 0
		if u.Sign() != 0 {
			nx, ny, ok2 := affineOf(secp256k1.SSWU(fv(ref.FNeg(u)).Build()))
			if !ok2 || nx.Cmp(x) != 0 || ny.Cmp(ref.FNeg(y)) != 0 {
				return gen.Fail("SSWU/odd-symmetry", "SSWU(-u) != -SSWU(u) for u=%x", u)
			}
		}
		// the isogeny carries it to the prescribed point of secp256k1
		want := ref.IsoMap(wx, wy)
		r := secp256k1.IsogenySecp256k13iso(q)
		if !want.Valid() || want.Inf {
			return &gen.Inconclusive{Msg: "model isogeny image invalid"}
		}
		if enc := r.EncodeUncompressed(); !bytes.Equal(enc, ref.Uncompressed(want)) {
			return gen.Fail("Isogeny/value", "iso(SSWU(%x)) = %x, want %x", u, enc, ref.Uncompressed(want))
		}
		if enc := r.Encode(); !bytes.Equal(enc, ref.Compress(want)) {
			return gen.Fail("Isogeny/value", "iso(SSWU(%x)) encodes to %x, want %x", u, enc, ref.Compress(want))
		}
		if err := secp256k1.NewElement().Decode(r.EncodeUncompressed()); err != nil {
			return gen.Fail("Isogeny/off-curve", "iso(SSWU(%x)) is not a point of secp256k1: %v", u, err)
		}
		return nil
	},
})

func TestC11SSWU(t *testing.T) { c11.Execute(t) }

// --- the isogeny alone, on arbitrary points of E' (white-box: needs raw coordinate installation) --------

type caseC11iso struct {
	X   string `json:"x"` // first abscissa >= X with a point of E'
	Odd bool   `json:"odd"`
}

var c11iso = gen.Register(&gen.Check[caseC11iso]{
	Name:   "C11/isogeny",
	Weight: 0.5,
	Gen: func(t *rapid.T) caseC11iso {
		return caseC11iso{X: gen.H(gen.Int(ref.P).Draw(t, "x")), Odd: rapid.Bool().Draw(t, "odd")}
	},
	Run: func(c caseC11iso, o *gen.Obs) error {
		if !pt.Calibrated() {
			o.Class("skipped:api-only")
			return nil
		}
		x := gen.B(c.X)
		var y *big.Int
		for {
			g := ref.FAdd(ref.FAdd(ref.FMul(ref.FMul(x, x), x), ref.FMul(ref.IsoA, x)), ref.IsoB)
			if ref.IsSquare(g) {
				y = ref.Sqrt(g)
				break
			}
			x = ref.FAdd(x, bigOne)
		}
		if (y.Bit(0) == 1) != c.Odd {
			y = ref.FNeg(y)
		}
		if !ref.OnIso(x, y) {
			return &gen.Inconclusive{Msg: "model failed to build a point of E'"}
		}
		o.NonTrivial()
		o.Class("white-box")
		want := ref.IsoMap(x, y)
		if want.Inf || !want.Valid() {
			return &gen.Inconclusive{Msg: "model isogeny image invalid"}
		}
		e := secp256k1.NewElement()
		pt.SetRaw(e, x, y, big.NewInt(1))
		r := secp256k1.IsogenySecp256k13iso(e)
		if enc := r.EncodeUncompressed(); !bytes.Equal(enc, ref.Uncompressed(want)) {
			return gen.Fail("Isogeny/value", "iso(%x, %x) = %x, want %x", x, y, enc, ref.Uncompressed(want))
		}
		if r.IsIdentity() {
			return gen.Fail("Isogeny/identity", "iso(%x, %x) is the identity", x, y)
		}
		return nil
	},
})

func TestC11Isogeny(t *testing.T) { c11iso.Execute(t) }
