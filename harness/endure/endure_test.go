// Package endure holds the "number of calls" dimension of the properties: one API function is called N times in ONE process
// (N = 2^17 + 2^10 in the quick tier, up to 2^24 + 2^12 in the thorough tier) and EVERY call is compared with a result the
// reference model computed up-front. The operands rotate through a small table (boundary and ordinary values, equal and unequal
// pairs, valid and invalid encodings); the rotation starts at a different table entry in every shard, so that over the shards
// every table entry meets every call number. What this reaches and the ordinary checks do not: state that only goes wrong
// after many calls (counters that wrap or spill into a flag, periodic self-tests and re-seeding, pools recycled after k uses).
// Each case runs in the process of its own test binary from call number 0, so a replay of the case file reproduces the count.
package endure

import (
	"bytes"
	"crypto/rand"
	"encoding/binary"
	"fmt"
	"math/big"
	"sync"
	"testing"

	"github.com/bytemare/secp256k1"
	"github.com/bytemare/secp256k1/verifharness/endcore"
	"github.com/bytemare/secp256k1/verifharness/gen"
	_ "github.com/bytemare/secp256k1/verifharness/pt" // registers the cold-start exercise
	"github.com/bytemare/secp256k1/verifharness/ref"
)

func TestMain(m *testing.M) { gen.Main(m) }

// TestReplay replays $VERIF_REPLAY.
func TestReplay(t *testing.T) { gen.ReplayMain(t) }

var (
	bigOne = big.NewInt(1)
	nm1    = new(big.Int).Sub(ref.N, bigOne)
	dst    = []byte("VERIF-ENDURE-dst-0123456789")
)

func mkS(v *big.Int) *secp256k1.Scalar {
	s := secp256k1.NewScalar()
	if err := s.Decode(ref.Bytes32(v)); err != nil {
		panic("harness: canonical scalar rejected: " + err.Error())
	}
	return s
}

func mkE(p ref.Point) *secp256k1.Element {
	e := secp256k1.NewElement()
	if err := e.Decode(ref.Compress(p)); err != nil {
		panic("harness: valid point rejected: " + err.Error())
	}
	return e
}

func scalarTable() []*big.Int {
	return []*big.Int{big.NewInt(0), big.NewInt(1), big.NewInt(2), nm1, new(big.Int).Rsh(ref.N, 1), new(big.Int).Lsh(bigOne, 255),
		new(big.Int).Sub(new(big.Int).Lsh(bigOne, 128), bigOne), ref.HashToScalar([]byte("endure-a"), dst), ref.HashToScalar([]byte("endure-b"), dst),
		new(big.Int).Lsh(bigOne, 64), new(big.Int).Sub(ref.N, big.NewInt(2))}
}

func pointTable() []ref.Point {
	g := ref.G()
	h, _ := ref.HashToCurve([]byte("endure-p"), dst)
	return []ref.Point{g, ref.Double(g), ref.Neg(g), h, ref.Endo(h), ref.Infinity(), ref.Mul(big.NewInt(7), g)}
}

// The wide operand families of the working-set cases: scalar i is (i+1)*C mod n, point i is (i+1)*H (C, H fixed hash outputs);
// the multiples are computed incrementally by the reference model and shared read-only.
type multiples struct {
	mu   sync.Mutex
	base ref.Point
	tab  []ref.Point
}

func (m *multiples) at(i int) ref.Point {
	m.mu.Lock()
	defer m.mu.Unlock()
	for len(m.tab) <= i {
		if len(m.tab) == 0 {
			m.tab = append(m.tab, m.base)
		} else {
			m.tab = append(m.tab, ref.Add(m.tab[len(m.tab)-1], m.base))
		}
	}
	return m.tab[i]
}

var (
	wideC  = ref.HashToScalar([]byte("endure-wide"), dst)
	wideH  = func() ref.Point { h, _ := ref.HashToCurve([]byte("endure-wide-p"), dst); return h }()
	mulH   = &multiples{base: wideH}
	mulCH  = &multiples{base: ref.Mul(wideC, wideH)}
	mulCG  = &multiples{base: ref.Mul(wideC, ref.G())}
	wideSc = func(i int) *big.Int {
		return new(big.Int).Mod(new(big.Int).Mul(big.NewInt(int64(i+1)), wideC), ref.N)
	}
)

func b2i(b bool) int {
	if b {
		return 1
	}
	return 0
}

var ops = map[string]endcore.OpDef{
	"Scalar.Random": {Prop: "C18", Cost: 1, Special: runRandom}, // needs the entropy stream
	"Scalar.Bits": {Prop: "C14", Cost: 1, Build: func() []endcore.Variant {
		var out []endcore.Variant
		for _, v := range scalarTable() {
			s, v := mkS(v), v
			var want [256]uint8
			for i := range want {
				want[i] = uint8(v.Bit(i))
			}
			out = append(out, func() string {
				if got := s.Bits(); got != want {
					return fmt.Sprintf("Bits(%x) = %v", v, got)
				}
				return ""
			})
		}
		return out
	}, Wide: func(i int) endcore.Variant {
		v := wideSc(i)
		s := mkS(v)
		var want [256]uint8
		for j := range want {
			want[j] = uint8(v.Bit(j))
		}
		return func() string {
			if got := s.Bits(); got != want {
				return fmt.Sprintf("Bits(%x) = %v", v, got)
			}
			if got := mkS(v).Bits(); got != want { // (and through another object holding the same value)
				return fmt.Sprintf("Bits(%x) of a fresh object = %v", v, got)
			}
			return ""
		}
	}},
	"Scalar.compare": {Prop: "C13", Cost: 0, Build: func() []endcore.Variant {
		var out []endcore.Variant
		tab := scalarTable()
		for i, a := range tab {
			for _, b := range []*big.Int{a, tab[(i+1)%len(tab)], tab[(i+5)%len(tab)]} {
				sa, sb, sc := mkS(a), mkS(b), mkS(a)
				a, b := a, b
				wle, wge, weq := uint64(b2i(a.Cmp(b) <= 0)), uint64(b2i(b.Cmp(a) <= 0)), b2i(a.Cmp(b) == 0)
				out = append(out, func() string {
					if g1, g2, g3, g4 := sa.LessOrEqual(sb), sb.LessOrEqual(sa), sa.Equal(sb), sa.LessOrEqual(sc); g1 != wle || g2 != wge || g3 != weq || g4 != 1 {
						return fmt.Sprintf("a=%x b=%x: LessOrEqual(a,b)=%d (want %d) LessOrEqual(b,a)=%d (want %d) Equal=%d (want %d) LessOrEqual(a,copy of a)=%d (want 1)", a, b, g1, wle, g2, wge, g3, weq, g4)
					}
					if sa.IsZero() != (a.Sign() == 0) || sa.IsOne() != (a.Cmp(bigOne) == 0) {
						return fmt.Sprintf("a=%x: IsZero=%v IsOne=%v", a, sa.IsZero(), sa.IsOne())
					}
					return ""
				})
			}
		}
		return out
	}},
	"Scalar.CSelect": {Prop: "C13", Cost: 0, Build: func() []endcore.Variant {
		var out []endcore.Variant
		tab := scalarTable()
		for i, a := range tab {
			for _, cond := range []uint64{0, 1, 2, 1 << 63, ^uint64(0)} {
				b := tab[(i+3)%len(tab)]
				sa, sb, r := mkS(a), mkS(b), secp256k1.NewScalar()
				want := ref.Bytes32(a)
				if cond != 0 {
					want = ref.Bytes32(b)
				}
				cond := cond
				out = append(out, func() string {
					if err := r.CSelect(cond, sa, sb); err != nil || !bytes.Equal(r.Encode(), want) {
						return fmt.Sprintf("CSelect(%#x) = %x, %v; want %x", cond, r.Encode(), err, want)
					}
					return ""
				})
			}
		}
		return out
	}},
	"Scalar.encode-decode": {Prop: "C07", Cost: 1, Build: func() []endcore.Variant {
		var out []endcore.Variant
		for _, v := range scalarTable() {
			s, enc, r := mkS(v), ref.Bytes32(v), secp256k1.NewScalar()
			out = append(out, func() string {
				got := s.Encode()
				if !bytes.Equal(got, enc) {
					return fmt.Sprintf("Encode = %x, want %x", got, enc)
				}
				if err := r.Decode(got); err != nil || r.Equal(s) != 1 {
					return fmt.Sprintf("Decode(Encode(%x)) failed: %v", enc, err)
				}
				return ""
			})
		}
		for _, v := range []*big.Int{ref.N, new(big.Int).Add(ref.N, bigOne), new(big.Int).Sub(new(big.Int).Lsh(bigOne, 256), bigOne)} {
			bad, r := ref.Bytes32(v), secp256k1.NewScalar()
			out = append(out, func() string {
				if err := r.Decode(bad); err == nil {
					return fmt.Sprintf("Decode(%x) accepted", bad)
				}
				return ""
			})
		}
		return out
	}, Wide: func(i int) endcore.Variant {
		v := wideSc(i)
		s, enc, r := mkS(v), ref.Bytes32(v), secp256k1.NewScalar()
		return func() string {
			got := s.Encode()
			if !bytes.Equal(got, enc) {
				return fmt.Sprintf("Encode = %x, want %x", got, enc)
			}
			if err := r.Decode(enc); err != nil || r.Equal(s) != 1 || !bytes.Equal(r.Encode(), enc) {
				return fmt.Sprintf("Decode(%x) failed: %v / %x", enc, err, r.Encode())
			}
			return ""
		}
	}},
	"Scalar.arith": {Prop: "C06", Cost: 1, Build: func() []endcore.Variant {
		var out []endcore.Variant
		tab := scalarTable()
		for i, a := range tab {
			b := tab[(i+4)%len(tab)]
			sa, sb, r := mkS(a), mkS(b), secp256k1.NewScalar()
			wadd := ref.Bytes32(new(big.Int).Mod(new(big.Int).Add(a, b), ref.N))
			wsub := ref.Bytes32(new(big.Int).Mod(new(big.Int).Sub(a, b), ref.N))
			wmul := ref.Bytes32(new(big.Int).Mod(new(big.Int).Mul(a, b), ref.N))
			wsq := ref.Bytes32(new(big.Int).Mod(new(big.Int).Mul(a, a), ref.N))
			out = append(out, func() string {
				if got := r.Set(sa).Add(sb).Encode(); !bytes.Equal(got, wadd) {
					return fmt.Sprintf("Add = %x, want %x", got, wadd)
				}
				if got := r.Set(sa).Subtract(sb).Encode(); !bytes.Equal(got, wsub) {
					return fmt.Sprintf("Subtract = %x, want %x", got, wsub)
				}
				if got := r.Set(sa).Multiply(sb).Encode(); !bytes.Equal(got, wmul) {
					return fmt.Sprintf("Multiply = %x, want %x", got, wmul)
				}
				if got := r.Set(sa).Square().Encode(); !bytes.Equal(got, wsq) {
					return fmt.Sprintf("Square = %x, want %x", got, wsq)
				}
				return ""
			})
		}
		return out
	}, Wide: func(i int) endcore.Variant {
		a, b := wideSc(i), wideSc(2*i+7)
		sa, sb, r := mkS(a), mkS(b), secp256k1.NewScalar()
		wadd := ref.Bytes32(new(big.Int).Mod(new(big.Int).Add(a, b), ref.N))
		wmul := ref.Bytes32(new(big.Int).Mod(new(big.Int).Mul(a, b), ref.N))
		return func() string {
			if got := r.Set(sa).Add(sb).Encode(); !bytes.Equal(got, wadd) {
				return fmt.Sprintf("Add = %x, want %x", got, wadd)
			}
			if got := r.Set(sa).Multiply(sb).Encode(); !bytes.Equal(got, wmul) {
				return fmt.Sprintf("Multiply = %x, want %x", got, wmul)
			}
			return ""
		}
	}},
	"Scalar.invert-pow": {Prop: "C06", Cost: 2, Build: func() []endcore.Variant {
		var out []endcore.Variant
		tab := scalarTable()
		for i, a := range tab {
			b := tab[(i+2)%len(tab)]
			sa, sb, r := mkS(a), mkS(b), secp256k1.NewScalar()
			winv := ref.Bytes32(new(big.Int))
			if a.Sign() != 0 {
				winv = ref.Bytes32(new(big.Int).ModInverse(a, ref.N))
			}
			wpow := ref.Bytes32(new(big.Int).Exp(a, b, ref.N))
			out = append(out, func() string {
				if got := r.Set(sa).Invert().Encode(); !bytes.Equal(got, winv) {
					return fmt.Sprintf("Invert(%x) = %x, want %x", a, got, winv)
				}
				if got := r.Set(sa).Pow(sb).Encode(); !bytes.Equal(got, wpow) {
					return fmt.Sprintf("Pow = %x, want %x", got, wpow)
				}
				return ""
			})
		}
		return out
	}, Wide: func(i int) endcore.Variant {
		a := wideSc(i)
		sa, r := mkS(a), secp256k1.NewScalar()
		winv := ref.Bytes32(new(big.Int).ModInverse(a, ref.N))
		return func() string {
			if got := r.Set(sa).Invert().Encode(); !bytes.Equal(got, winv) {
				return fmt.Sprintf("Invert(%x) = %x, want %x", a, got, winv)
			}
			return ""
		}
	}},
	"Element.decode": {Prop: "C03", Cost: 2, Build: func() []endcore.Variant {
		var out []endcore.Variant
		for _, p := range pointTable() {
			encs := [][]byte{ref.Compress(p)}
			if !p.Inf {
				encs = append(encs, ref.Uncompressed(p))
			}
			for _, enc := range encs {
				want, r, enc := mkE(p), secp256k1.Base(), enc
				out = append(out, func() string {
					if err := r.Decode(enc); err != nil || r.Equal(want) != 1 || want.Equal(r) != 1 {
						return fmt.Sprintf("Decode(%x): %v, equal to the expected point: %d", enc, err, r.Equal(want))
					}
					return ""
				})
			}
		}
		g := ref.Compress(ref.G())
		for _, bad := range [][]byte{{}, {0, 0}, append([]byte{5}, g[1:]...), append([]byte{2}, ref.Bytes32(ref.P)...), append([]byte{2}, ref.Bytes32(big.NewInt(5))...), g[:32]} {
			r, bad := secp256k1.Base(), bad
			out = append(out, func() string {
				if err := r.Decode(bad); err == nil {
					return fmt.Sprintf("Decode(%x) accepted", bad)
				}
				return ""
			})
		}
		return out
	}, Wide: func(i int) endcore.Variant {
		p := mulH.at(i)
		enc, r := ref.Compress(p), secp256k1.Base()
		if i%3 == 1 {
			enc = ref.Uncompressed(p)
		}
		want := ref.Compress(p)
		return func() string {
			if err := r.Decode(enc); err != nil || !bytes.Equal(r.Encode(), want) {
				return fmt.Sprintf("Decode(%x): %v, holds %x", enc, err, r.Encode())
			}
			return ""
		}
	}},
	"Element.encode": {Prop: "C04", Cost: 2, Build: func() []endcore.Variant {
		var out []endcore.Variant
		for _, p := range pointTable() {
			e := mkE(p).Add(secp256k1.Base()).Subtract(secp256k1.Base()) // Z != 1
			wc, r := ref.Compress(p), secp256k1.Base()
			var wu []byte
			if !p.Inf {
				wu = ref.Uncompressed(p)
			}
			out = append(out, func() string {
				got := e.Encode()
				if !bytes.Equal(got, wc) {
					return fmt.Sprintf("Encode = %x, want %x", got, wc)
				}
				if gu := e.EncodeUncompressed(); !p.Inf && !bytes.Equal(gu, wu) {
					return fmt.Sprintf("EncodeUncompressed = %x, want %x", gu, wu)
				}
				if err := r.Decode(got); err != nil || r.Equal(e) != 1 {
					return fmt.Sprintf("Decode(Encode(P)) != P for %x: %v", wc, err)
				}
				return ""
			})
		}
		return out
	}, Wide: func(i int) endcore.Variant {
		p := mulH.at(i)
		e := mkE(p).Add(secp256k1.Base()).Subtract(secp256k1.Base()) // Z != 1
		wc, wu := ref.Compress(p), ref.Uncompressed(p)
		return func() string {
			if got := e.Encode(); !bytes.Equal(got, wc) {
				return fmt.Sprintf("Encode = %x, want %x", got, wc)
			}
			if gu := e.EncodeUncompressed(); !bytes.Equal(gu, wu) {
				return fmt.Sprintf("EncodeUncompressed = %x, want %x", gu, wu)
			}
			return ""
		}
	}},
	"Element.equal": {Prop: "C05", Cost: 1, Build: func() []endcore.Variant {
		var out []endcore.Variant
		tab := pointTable()
		for i, p := range tab {
			for _, q := range []ref.Point{p, tab[(i+1)%len(tab)], ref.Neg(p)} {
				a, b := mkE(p), mkE(q).Add(secp256k1.Base()).Subtract(secp256k1.Base())
				want, winf := b2i(p.Equal(q)), p.Inf
				out = append(out, func() string {
					if g1, g2 := a.Equal(b), b.Equal(a); g1 != want || g2 != want || a.IsIdentity() != winf {
						return fmt.Sprintf("Equal(%s, %s) = %d / %d, want %d; IsIdentity = %v", p, q, g1, g2, want, a.IsIdentity())
					}
					return ""
				})
			}
		}
		return out
	}, Wide: func(i int) endcore.Variant {
		p, q := mulH.at(i), mulH.at(i+1)
		a, a2, b := mkE(p), mkE(p).Add(secp256k1.Base()).Subtract(secp256k1.Base()), mkE(q)
		return func() string {
			if g1, g2, g3 := a.Equal(a2), a2.Equal(a), a.Equal(b); g1 != 1 || g2 != 1 || g3 != 0 {
				return fmt.Sprintf("Equal(%s, same point) = %d / %d, Equal(%s, %s) = %d", p, g1, g2, p, q, g3)
			}
			return ""
		}
	}},
	"Element.grouplaw": {Prop: "C02", Cost: 1, Build: func() []endcore.Variant {
		var out []endcore.Variant
		tab := pointTable()
		for i, p := range tab {
			q := tab[(i+2)%len(tab)]
			a, b, r := mkE(p), mkE(q), secp256k1.NewElement()
			wadd, wsub, wdbl, wneg := mkE(ref.Add(p, q)), mkE(ref.Sub(p, q)), mkE(ref.Double(p)), mkE(ref.Neg(p))
			out = append(out, func() string {
				if r.Set(a).Add(b).Equal(wadd) != 1 {
					return fmt.Sprintf("%s + %s wrong: %x", p, q, r.Encode())
				}
				if r.Set(a).Subtract(b).Equal(wsub) != 1 {
					return fmt.Sprintf("%s - %s wrong: %x", p, q, r.Encode())
				}
				if r.Set(a).Double().Equal(wdbl) != 1 {
					return fmt.Sprintf("2 %s wrong: %x", p, r.Encode())
				}
				if r.Set(a).Negate().Equal(wneg) != 1 {
					return fmt.Sprintf("- %s wrong: %x", p, r.Encode())
				}
				return ""
			})
		}
		return out
	}, Wide: func(i int) endcore.Variant {
		p, q := mulH.at(i), mulH.at(2*i+5)
		a, b, r := mkE(p), mkE(q), secp256k1.NewElement()
		wadd, wdbl := ref.Compress(mulH.at(3*i+6)), ref.Compress(mulH.at(2*i+1))
		return func() string {
			if got := r.Set(a).Add(b).Encode(); !bytes.Equal(got, wadd) {
				return fmt.Sprintf("%s + %s wrong: %x", p, q, got)
			}
			if got := r.Set(a).Double().Encode(); !bytes.Equal(got, wdbl) {
				return fmt.Sprintf("2 %s wrong: %x", p, got)
			}
			return ""
		}
	}},
	"Element.Multiply": {Prop: "C01", Cost: 3, Build: func() []endcore.Variant {
		var out []endcore.Variant
		pts, tab := pointTable(), scalarTable()
		for i, k := range tab {
			p := pts[i%len(pts)]
			a, s, r, want := mkE(p), mkS(k), secp256k1.NewElement(), ref.Compress(ref.Mul(k, p))
			out = append(out, func() string {
				if got := r.Set(a).Multiply(s).Encode(); !bytes.Equal(got, want) {
					return fmt.Sprintf("[%x] %s = %x, want %x", k, p, got, want)
				}
				return ""
			})
		}
		return out
	}, Wide: func(i int) endcore.Variant {
		// even i: the scalar varies ([s_i] G), odd i: the point varies ([C] P_i)
		a, s, want := secp256k1.Base(), mkS(wideSc(i)), ref.Compress(mulCG.at(i))
		if i%2 == 1 {
			a, s, want = mkE(mulH.at(i)), mkS(wideC), ref.Compress(mulCH.at(i))
		}
		r := secp256k1.NewElement()
		return func() string {
			if got := r.Set(a).Multiply(s).Encode(); !bytes.Equal(got, want) {
				return fmt.Sprintf("[%x] %x = %x, want %x", s.Encode(), a.Encode(), got, want)
			}
			return ""
		}
	}},
	"HashToScalar":  {Prop: "C09", Cost: 1, Build: func() []endcore.Variant { return hashVariants("HashToScalar") }, Wide: func(i int) endcore.Variant { return hashVariant("HashToScalar", wideMsg(i), dst, 2) }},
	"HashToGroup":   {Prop: "C08", Cost: 3, Build: func() []endcore.Variant { return hashVariants("HashToGroup") }, Wide: func(i int) endcore.Variant { return hashVariant("HashToGroup", wideMsg(i), dst, 2) }},
	"EncodeToGroup": {Prop: "C08", Cost: 3, Build: func() []endcore.Variant { return hashVariants("EncodeToGroup") }, Wide: func(i int) endcore.Variant { return hashVariant("EncodeToGroup", wideMsg(i), dst, 2) }},
}

func wideMsg(i int) []byte { return []byte(fmt.Sprintf("endure-wide-message-%d", i)) }

func hashVariants(fn string) []endcore.Variant {
	var out []endcore.Variant
	long := bytes.Repeat([]byte{'L'}, 300)
	for _, in := range []struct{ msg, dst []byte }{{nil, dst}, {[]byte("abc"), dst}, {bytes.Repeat([]byte{'m'}, 200), dst}, {[]byte("abc"), long}, {[]byte("abcdef0123456789"), []byte("d")}, {bytes.Repeat([]byte{0}, 64), dst[:16]}} {
		out = append(out, hashVariant(fn, in.msg, in.dst, 320))
	}
	return out
}

func hashVariant(fn string, msg, dst []byte, keep int) endcore.Variant {
	var want []byte
	switch fn {
	case "HashToScalar":
		want = ref.Bytes32(ref.HashToScalar(msg, dst))
	case "HashToGroup":
		p, _ := ref.HashToCurve(msg, dst)
		want = ref.Compress(p)
	default:
		p, _ := ref.EncodeToCurve(msg, dst)
		want = ref.Compress(p)
	}
	// the last results are kept and looked at again hundreds of calls later: a returned object belongs to the caller for good
	held := make([]interface{ Encode() []byte }, keep)
	pos := 0
	return func() string {
		var res interface{ Encode() []byte }
		switch fn {
		case "HashToScalar":
			res = secp256k1.HashToScalar(msg, dst)
		case "HashToGroup":
			res = secp256k1.HashToGroup(msg, dst)
		default:
			res = secp256k1.EncodeToGroup(msg, dst)
		}
		if got := res.Encode(); !bytes.Equal(got, want) {
			return fmt.Sprintf("%s(msg[%d], dst[%d]) = %x, want %x", fn, len(msg), len(dst), got, want)
		}
		if h := held[pos]; h != nil {
			if got := h.Encode(); !bytes.Equal(got, want) {
				return fmt.Sprintf("the object %s(msg[%d], dst[%d]) returned %d calls of this variant ago (correct then: %x) now shows %x", fn, len(msg), len(dst), len(held), want, got)
			}
		}
		held[pos], pos = res, (pos+1)%len(held)
		return ""
	}
}

// counterReader is an entropy source that delivers the blocks 7f..(base+1), 7f..(base+2), ... (32 bytes, big endian), every
// eleventh one preceded by a block the rejection sampler must skip (all zero, or n itself). It keeps what it delivered during
// the current call: how much of the stream a call consumes is its own business (read-ahead is allowed), the result must be the
// first acceptable 32-byte block of what it was given.
type counterReader struct {
	next  uint64
	queue []byte
	given []byte // bytes delivered since the current call started
}

func (r *counterReader) Read(p []byte) (int, error) {
	for len(r.queue) < len(p) {
		r.next++
		if r.next%11 == 0 {
			if r.next%22 == 0 {
				r.queue = append(r.queue, make([]byte, 32)...)
			} else {
				r.queue = append(r.queue, ref.Bytes32(ref.N)...)
			}
		}
		var blk [32]byte
		blk[0] = 0x7f
		binary.BigEndian.PutUint64(blk[24:], r.next)
		r.queue = append(r.queue, blk[:]...)
	}
	n := copy(p, r.queue)
	r.given = append(r.given, r.queue[:n]...)
	r.queue = r.queue[n:]
	return n, nil
}

func runRandom(c endcore.Case) error {
	saved := rand.Reader
	src := &counterReader{next: uint64(c.Offset) * 1000}
	rand.Reader = src
	defer func() { rand.Reader = saved }()
	s := secp256k1.NewScalar()
	for i := 0; i < c.N; i++ {
		src.given = src.given[:0]
		s.Random()
		var want []byte
		for off := 0; off+32 <= len(src.given); off += 32 {
			blk := src.given[off : off+32]
			if blk[0] == 0x7f { // (the acceptable blocks of this stream are < n and non-zero by construction)
				want = blk
				break
			}
		}
		if got := s.Encode(); want == nil || !bytes.Equal(got, want) {
			return gen.Fail("endurance/Scalar.Random", "call number %d of Random in this process returned %x; it was given %d bytes, whose first acceptable block is %x", i+1, got, len(src.given), want)
		}
	}
	return nil
}

var suite = endcore.NewSuite(ops)

func TestEndure(t *testing.T) { suite.Execute(t) }
