package props

import (
	"bytes"
	"crypto/rand"
	"encoding/hex"
	"fmt"
	"math/big"
	"runtime"
	"sync"
	"testing"
	"time"

	"github.com/bytemare/secp256k1"
	"github.com/bytemare/secp256k1/verifharness/gen"
	"github.com/bytemare/secp256k1/verifharness/pt"
	"github.com/bytemare/secp256k1/verifharness/ref"
	"pgregory.net/rapid"
)

// C10: any history of element and scalar operations matches the abstract group model.
// The history is data (a list of actions over two pools of four variables each), so it is generated,
// shrunk and replayed like any other case; receiver and argument indices may coincide (aliasing).

type act struct {
	Op   string   `json:"op"`
	R    int      `json:"r"`              // receiver index
	A    int      `json:"a,omitempty"`    // first argument index
	B    int      `json:"b,omitempty"`    // second argument index
	U    uint64   `json:"u,omitempty"`    // uint64 parameter (SetUInt64, CSelect condition, mutation selector)
	Data string   `json:"data,omitempty"` // bytes parameter (invalid encodings, messages, entropy)
	Step *pt.Step `json:"step,omitempty"` // e.repr: a value-preserving change of representation (white-box builds)
	Z    bool     `json:"z,omitempty"`    // setters only: the receiver variable is first replaced by a zero-value struct
	// Ch: a second call is chained on the pointer the method returns (x.Op(..).Add(G).Negate() for elements, x.Op(..).Add(1) for scalars):
	// methods documented to return the receiver must return it, so that the chained call lands in the variable.
	Ch bool `json:"ch,omitempty"`
}

type caseC10 struct {
	Acts []act `json:"acts"`
}

const poolSize = 4

var (
	elemOps = []string{"e.base", "e.identity", "e.set", "e.copy", "e.add", "e.add", "e.sub", "e.sub", "e.double", "e.negate", "e.mul", "e.addnil", "e.subnil",
		"e.mulnil", "e.decode", "e.decodeunc", "e.decodebad", "e.coords", "e.h2g", "e.e2g", "e.copymut", "e.repr", "e.repr", "gc"}
	scalOps = []string{"s.zero", "s.one", "s.minusone", "s.setu64", "s.set", "s.setnil", "s.copy", "s.add", "s.sub", "s.mul", "s.square", "s.invert", "s.pow",
		"s.decode", "s.decodebad", "s.h2s", "s.random", "s.cselect", "s.addnil", "s.mulnil", "s.copymut", "s.value", "s.value"}
)

func genAct(t *rapid.T) act {
	a := act{R: rapid.IntRange(0, poolSize-1).Draw(t, "r"), A: rapid.IntRange(0, poolSize-1).Draw(t, "a"), B: rapid.IntRange(0, poolSize-1).Draw(t, "b")}
	if gen.Pick(t, "kind", 5) < 3 {
		a.Op = elemOps[gen.Pick(t, "eop", len(elemOps))]
	} else {
		a.Op = scalOps[gen.Pick(t, "sop", len(scalOps))]
	}
	switch a.Op {
	case "e.base", "e.identity", "e.set", "e.decode", "e.decodeunc", "e.mulnil":
		a.Z = gen.Chance(t, "zeroValue", 1, 4)
	}
	a.Ch = gen.Chance(t, "chain", 1, 4)
	switch a.Op {
	case "s.setu64":
		a.U = gen.Limb().Draw(t, "u")
		if rapid.Bool().Draw(t, "smallu") {
			a.U = uint64(rapid.IntRange(0, 20).Draw(t, "su"))
		}
	case "s.cselect":
		a.U = rapid.SampledFrom(condWords).Draw(t, "cond")
	case "e.decodebad":
		d, _ := genElementBytes(t)
		a.Data = hex.EncodeToString(d)
	case "s.decodebad":
		a.Data = hex.EncodeToString(genScalarBytes(t))
	case "s.value": // a value from the boundary-biased generator or from the dictionary-aimed list
		v := gen.Int(ref.N).Draw(t, "sv")
		if df := dictFixedN(); len(df) > 0 && rapid.Bool().Draw(t, "fromDict") {
			v = df[gen.Pick(t, "dfi", len(df))]
		}
		a.Data = gen.H(v)
	case "e.h2g", "e.e2g", "s.h2s":
		a.Data = hex.EncodeToString(gen.Bytes(0, 40).Draw(t, "msg"))
	case "s.random":
		b := entropyBlock(t)
		if !isGoodBlock(b) {
			b = big.NewInt(3)
		}
		a.Data = gen.H(b)
	case "e.coords":
		a.U = uint64(rapid.IntRange(0, 3).Draw(t, "mut"))
	case "e.repr":
		st := pt.StepGen(false, false).Draw(t, "step")
		a.Step = &st
	}
	return a
}

type c10state struct {
	E  [poolSize]*secp256k1.Element
	S  [poolSize]*secp256k1.Scalar
	ME [poolSize]ref.Point
	MS [poolSize]*big.Int
	// observers taken as method values when the variable's object was first seen, and called after every later step: a method
	// value of a pointer method stays bound to the object, whatever the object held when it was taken
	boundE [poolSize]struct {
		of   *secp256k1.Element
		enc  func() []byte
		isID func() bool
	}
	boundS [poolSize]struct {
		of     *secp256k1.Scalar
		enc    func() []byte
		isZero func() bool
	}
}

var c10dst = []byte("VERIF-C10-history-dst")

var c10verbs = "%s %x"

var c10base = secp256k1.Base()

var dictFixedN = sync.OnceValue(func() []*big.Int { return gen.DictFixed(ref.N, 1) })

var c10one = secp256k1.NewScalar().One()

func (st *c10state) check(step int, a act) error {
	where := fmt.Sprintf("after step %d (%s r=%d a=%d b=%d)", step, a.Op, a.R, a.A, a.B)
	if a.R >= 0 && a.R < poolSize {
		// values get printed: formatting goes through whatever interfaces the types implement and must be a pure observer
		_ = fmt.Sprint(st.E[a.R], st.S[a.R])
		_ = fmt.Sprintf(c10verbs, st.E[a.R], st.S[a.R])
	}
	for i := 0; i < poolSize; i++ {
		if be := &st.boundE[i]; be.of != st.E[i] {
			be.of, be.enc, be.isID = st.E[i], st.E[i].Encode, st.E[i].IsIdentity
		} else if enc := be.enc(); !bytes.Equal(enc, ref.Compress(st.ME[i])) || be.isID() != st.ME[i].Inf {
			return gen.Fail("history/bound-observer", "%s: the method values Encode / IsIdentity taken from element %d earlier answer %x / %v, model %x", where, i, enc, be.isID(), ref.Compress(st.ME[i]))
		}
		if bs := &st.boundS[i]; bs.of != st.S[i] {
			bs.of, bs.enc, bs.isZero = st.S[i], st.S[i].Encode, st.S[i].IsZero
		} else if enc := bs.enc(); !bytes.Equal(enc, ref.Bytes32(st.MS[i])) || bs.isZero() != (st.MS[i].Sign() == 0) {
			return gen.Fail("history/bound-observer", "%s: the method values Encode / IsZero taken from scalar %d earlier answer %x / %v, model %x", where, i, enc, bs.isZero(), st.MS[i])
		}
		if enc := st.E[i].Encode(); !bytes.Equal(enc, ref.Compress(st.ME[i])) {
			cls := "history/element-value"
			if i != a.R || a.Op[0] != 'e' {
				cls = "history/non-receiver-element-changed"
			}
			return gen.Fail(cls, "%s: element %d encodes to %x, model %x", where, i, enc, ref.Compress(st.ME[i]))
		}
		if st.E[i].IsIdentity() != st.ME[i].Inf {
			return gen.Fail("history/is-identity", "%s: element %d IsIdentity = %v, model %v", where, i, st.E[i].IsIdentity(), st.ME[i].Inf)
		}
		// every element remains a valid curve point: its uncompressed form must be accepted
		if err := secp256k1.NewElement().Decode(st.E[i].EncodeUncompressed()); err != nil {
			return gen.Fail("history/invalid-point", "%s: element %d is not a valid point: %v", where, i, err)
		}
		if enc := st.S[i].Encode(); !bytes.Equal(enc, ref.Bytes32(st.MS[i])) {
			cls := "history/scalar-value"
			if i != a.R || a.Op[0] != 's' {
				cls = "history/non-receiver-scalar-changed"
			}
			return gen.Fail(cls, "%s: scalar %d encodes to %x, model %x", where, i, enc, st.MS[i])
		}
		if !limbsCanonical(st.S[i]) {
			return gen.Fail("history/scalar-non-canonical", "%s: scalar %d limbs %v not < n", where, i, st.S[i].S)
		}
		if st.S[i].IsZero() != (st.MS[i].Sign() == 0) {
			return gen.Fail("history/is-zero", "%s: scalar %d IsZero = %v", where, i, st.S[i].IsZero())
		}
	}
	for i := 0; i < poolSize; i++ {
		for j := 0; j < poolSize; j++ {
			if got, want := st.E[i].Equal(st.E[j]), b2i(st.ME[i].Equal(st.ME[j])); got != want {
				return gen.Fail("history/element-equal", "%s: Equal(e%d, e%d) = %d, model %d", where, i, j, got, want)
			}
			if got, want := st.S[i].Equal(st.S[j]), b2i(st.MS[i].Cmp(st.MS[j]) == 0); got != want {
				return gen.Fail("history/scalar-equal", "%s: Equal(s%d, s%d) = %d, model %d", where, i, j, got, want)
			}
		}
	}
	return nil
}

func modN(v *big.Int) *big.Int { return v.Mod(v, ref.N) }

func runC10(c caseC10, o *gen.Obs) error {
	hostileCaller()
	st := &c10state{}
	// initial pool: O, G, 2G (Z != 1), -G; 0, 1, n-1, 2^255 + 12345
	g := ref.G()
	st.E[0], st.ME[0] = secp256k1.NewElement(), ref.Infinity()
	st.E[1], st.ME[1] = secp256k1.Base(), g
	st.E[2], st.ME[2] = secp256k1.Base().Double(), ref.Double(g)
	st.E[3], st.ME[3] = secp256k1.Base().Negate(), ref.Neg(g)
	st.MS[0], st.MS[1], st.MS[2] = new(big.Int), big.NewInt(1), new(big.Int).Sub(ref.N, bigOne)
	st.MS[3] = new(big.Int).Add(new(big.Int).Lsh(bigOne, 255), big.NewInt(12345))
	for i := 0; i < poolSize; i++ {
		st.S[i] = SV{Hex: gen.H(st.MS[i])}.Build()
	}
	if err := st.check(-1, act{Op: "init"}); err != nil {
		return err
	}
	aliased, nonUnitZ, muls := 0, 0, 0
	for step, a := range c.Acts {
		r, x, y := a.R, a.A, a.B
		o.Class("act:" + a.Op)
		if a.Z && r != x {
			st.E[r] = new(secp256k1.Element) // a zero-value struct as receiver of a setter
			o.Class("zero-value-receiver")
		}
		var (
			eret *secp256k1.Element
			sret *secp256k1.Scalar
		)
		switch a.Op {
		case "e.base":
			eret = st.E[r].Base()
			st.ME[r] = ref.G()
		case "e.identity":
			eret = st.E[r].Identity()
			st.ME[r] = ref.Infinity()
		case "e.set":
			eret = st.E[r].Set(st.E[x])
			st.ME[r] = st.ME[x]
		case "e.copy":
			st.E[r] = st.E[x].Copy()
			st.ME[r] = st.ME[x]
		case "e.copymut": // mutate a copy: the source must not change
			cp := st.E[x].Copy()
			cp.Double().Add(secp256k1.Base()).Negate()
		case "sleep": // fixed cases only: time passes between two steps (expiring caches, periodic background work)
			time.Sleep(time.Duration(min(a.U, 1500)) * time.Millisecond)
		case "gc":
			if r == 0 { // (a quarter of the gc actions: a collection costs about a millisecond)
				runtime.GC() // pools and caches are emptied; nothing observable may change
			}
		case "e.repr":
			// the group element stays the same, its internal representation changes (re-scaling and coordinate
			// targets need the white-box build; the API recipes work everywhere)
			if a.Step == nil || (len(a.Step.Op) > 3 && a.Step.Op[:3] == "id:") {
				continue
			}
			ne, err := pt.ApplyStep(st.E[r], *a.Step, st.ME[r])
			if err != nil {
				return gen.Fail("history/decode-own-encoding", "step %d: %v", step, err)
			}
			st.E[r] = ne
			nonUnitZ++
		case "e.add":
			eret = st.E[r].Add(st.E[x])
			st.ME[r] = ref.Add(st.ME[r], st.ME[x])
			nonUnitZ++
		case "e.sub":
			eret = st.E[r].Subtract(st.E[x])
			st.ME[r] = ref.Sub(st.ME[r], st.ME[x])
			nonUnitZ++
		case "e.addnil":
			eret = st.E[r].Add(nil)
		case "e.subnil":
			eret = st.E[r].Subtract(nil)
		case "e.double":
			eret = st.E[r].Double()
			st.ME[r] = ref.Double(st.ME[r])
			nonUnitZ++
		case "e.negate":
			eret = st.E[r].Negate()
			st.ME[r] = ref.Neg(st.ME[r])
		case "e.mul":
			if muls >= 6 {
				continue // bound the cost of the reference multiplication per history
			}
			muls++
			eret = st.E[r].Multiply(st.S[x])
			st.ME[r] = ref.Mul(st.MS[x], st.ME[r])
			nonUnitZ++
		case "e.mulnil":
			eret = st.E[r].Multiply(nil)
			st.ME[r] = ref.Infinity()
		case "e.decode":
			if err := st.E[r].Decode(st.E[x].Encode()); err != nil {
				return gen.Fail("history/decode-own-encoding", "step %d: Decode(Encode(e%d)) failed: %v", step, x, err)
			}
			st.ME[r] = st.ME[x]
		case "e.decodeunc":
			if err := st.E[r].Decode(st.E[x].EncodeUncompressed()); err != nil {
				return gen.Fail("history/decode-own-encoding", "step %d: Decode(EncodeUncompressed(e%d)) failed: %v", step, x, err)
			}
			st.ME[r] = st.ME[x]
		case "e.decodebad":
			data := gen.HexBytes(a.Data)
			want, reason := ref.Decode(ref.FormAny, data)
			err := st.E[r].Decode(data)
			if (err == nil) != (reason == ref.ReasonOK) {
				return gen.Fail("history/decode-acceptance", "step %d: Decode(%x): err=%v, model says %s", step, data, err, reason)
			}
			if err == nil {
				st.ME[r] = want
			}
		case "e.coords":
			// coordinates of another variable, possibly mutated into an invalid pair
			if st.ME[x].Inf {
				continue
			}
			px, py := new(big.Int).Set(st.ME[x].X), new(big.Int).Set(st.ME[x].Y)
			switch a.U {
			case 1:
				py = ref.FNeg(py)
			case 2:
				py = ref.FAdd(py, bigOne)
			case 3:
				px, py = py, px
			}
			want, reason := ref.DecodeCoordinates(ref.Bytes32(px), ref.Bytes32(py))
			err := st.E[r].DecodeCoordinates([32]byte(ref.Bytes32(px)), [32]byte(ref.Bytes32(py)))
			if (err == nil) != (reason == ref.ReasonOK) {
				return gen.Fail("history/decode-acceptance", "step %d: DecodeCoordinates: err=%v, model says %s", step, err, reason)
			}
			if err == nil {
				st.ME[r] = want
			}
		case "e.h2g":
			msg := gen.HexBytes(a.Data)
			st.E[r] = secp256k1.HashToGroup(msg, c10dst)
			st.ME[r], _ = ref.HashToCurve(msg, c10dst)
		case "e.e2g":
			msg := gen.HexBytes(a.Data)
			st.E[r] = secp256k1.EncodeToGroup(msg, c10dst)
			st.ME[r], _ = ref.EncodeToCurve(msg, c10dst)

		case "s.zero":
			sret = st.S[r].Zero()
			st.MS[r] = new(big.Int)
		case "s.one":
			sret = st.S[r].One()
			st.MS[r] = big.NewInt(1)
		case "s.minusone":
			sret = st.S[r].MinusOne()
			st.MS[r] = new(big.Int).Sub(ref.N, bigOne)
		case "s.setu64":
			sret = st.S[r].SetUInt64(a.U)
			st.MS[r] = new(big.Int).SetUint64(a.U)
		case "s.set":
			sret = st.S[r].Set(st.S[x])
			st.MS[r] = new(big.Int).Set(st.MS[x])
		case "s.setnil":
			sret = st.S[r].Set(nil)
			st.MS[r] = new(big.Int)
		case "s.copy":
			st.S[r] = st.S[x].Copy()
			st.MS[r] = new(big.Int).Set(st.MS[x])
		case "s.copymut":
			cp := st.S[x].Copy()
			cp.Add(secp256k1.NewScalar().One()).Square()
		case "s.add":
			sret = st.S[r].Add(st.S[x])
			st.MS[r] = modN(new(big.Int).Add(st.MS[r], st.MS[x]))
		case "s.sub":
			sret = st.S[r].Subtract(st.S[x])
			st.MS[r] = modN(new(big.Int).Sub(st.MS[r], st.MS[x]))
		case "s.mul":
			sret = st.S[r].Multiply(st.S[x])
			st.MS[r] = modN(new(big.Int).Mul(st.MS[r], st.MS[x]))
		case "s.addnil":
			sret = st.S[r].Add(nil)
		case "s.mulnil":
			sret = st.S[r].Multiply(nil)
			st.MS[r] = new(big.Int)
		case "s.square":
			sret = st.S[r].Square()
			st.MS[r] = modN(new(big.Int).Mul(st.MS[r], st.MS[r]))
		case "s.invert":
			sret = st.S[r].Invert()
			if st.MS[r].Sign() != 0 {
				st.MS[r] = new(big.Int).ModInverse(st.MS[r], ref.N)
			}
		case "s.pow":
			sret = st.S[r].Pow(st.S[x])
			if st.MS[x].Sign() == 0 {
				st.MS[r] = big.NewInt(1)
			} else {
				st.MS[r] = new(big.Int).Exp(st.MS[r], st.MS[x], ref.N)
			}
		case "s.decode":
			if err := st.S[r].Decode(st.S[x].Encode()); err != nil {
				return gen.Fail("history/decode-own-encoding", "step %d: Decode(Encode(s%d)) failed: %v", step, x, err)
			}
			st.MS[r] = new(big.Int).Set(st.MS[x])
		case "s.value":
			v := gen.B(a.Data)
			if err := st.S[r].Decode(ref.Bytes32(v)); err != nil {
				return gen.Fail("history/decode-acceptance", "step %d: Scalar.Decode(%x) rejected: %v", step, v, err)
			}
			st.MS[r] = v
		case "s.decodebad":
			data := gen.HexBytes(a.Data)
			v := ref.OS2IP(data)
			ok := len(data) == 32 && v.Cmp(ref.N) < 0
			err := st.S[r].Decode(data)
			if (err == nil) != ok {
				return gen.Fail("history/decode-acceptance", "step %d: Scalar.Decode(%x): err=%v", step, data, err)
			}
			if ok {
				st.MS[r] = v
			} else {
				// a rejected scalar decode may leave any value in the receiver (DESIGN.md section 2): havoc
				st.MS[r] = montValue(st.S[r])
			}
		case "s.h2s":
			msg := gen.HexBytes(a.Data)
			st.S[r] = secp256k1.HashToScalar(msg, c10dst)
			st.MS[r] = ref.HashToScalar(msg, c10dst)
		case "s.random":
			block := gen.B(a.Data)
			saved := rand.Reader
			rand.Reader = bytes.NewReader(append(ref.Bytes32(block), make([]byte, 256)...))
			func() {
				defer func() { rand.Reader = saved }()
				st.S[r].Random()
			}()
			st.MS[r] = new(big.Int).Mod(block, ref.N)
		case "s.cselect":
			if err := st.S[r].CSelect(a.U, st.S[x], st.S[y]); err != nil {
				return gen.Fail("history/cselect-error", "step %d: %v", step, err)
			}
			if a.U == 0 {
				st.MS[r] = new(big.Int).Set(st.MS[x])
			} else {
				st.MS[r] = new(big.Int).Set(st.MS[y])
			}
		default:
			panic("unknown action " + a.Op)
		}
		if a.Ch && eret != nil {
			eret.Add(c10base).Negate() // chained on the returned pointer: must land in variable r
			st.ME[r] = ref.Neg(ref.Add(st.ME[r], ref.G()))
			o.Class("chained-call")
		}
		if a.Ch && sret != nil {
			sret.Add(c10one)
			st.MS[r] = modN(new(big.Int).Add(st.MS[r], bigOne))
			o.Class("chained-call")
		}
		if (a.Op == "e.add" || a.Op == "e.sub" || a.Op == "e.set" || a.Op == "s.add" || a.Op == "s.sub" || a.Op == "s.mul" || a.Op == "s.pow" || a.Op == "s.set") && r == x {
			aliased++
		}
		if a.Op == "s.cselect" && (r == x || r == y) {
			aliased++
		}
		if err := st.check(step, a); err != nil {
			return err
		}
	}
	o.ClassIf(aliased > 0, "aliased-call")
	o.ClassIf(nonUnitZ > 0, "z!=1")
	o.ClassIf(len(c.Acts) >= 10, "steps>=10")
	o.NonTrivialIf(len(c.Acts) >= 10 && aliased > 0 && nonUnitZ > 0)
	return nil
}

var c10 = gen.Register(&gen.Check[caseC10]{
	Name: "C10/history",
	Gen: func(t *rapid.T) caseC10 {
		n := 3 + gen.Pick(t, "n", 58)
		c := caseC10{}
		for i := 0; i < n; i++ {
			c.Acts = append(c.Acts, genAct(t))
		}
		return c
	},
	Fixed: func() []caseC10 {
		return []caseC10{
			{Acts: []act{{Op: "e.base", R: 0}, {Op: "e.double", R: 0}, {Op: "e.decode", R: 1, A: 0}, {Op: "s.setu64", R: 0, U: 77}, {Op: "e.mul", R: 1, A: 0}, {Op: "s.h2s", R: 1, Data: "6162"},
				{Op: "sleep", U: 1100}, {Op: "e.add", R: 1, A: 0}, {Op: "e.mul", R: 1, A: 0}, {Op: "s.mul", R: 0, A: 1}, {Op: "e.decode", R: 2, A: 1}, {Op: "s.h2s", R: 2, Data: "6162"}, {Op: "e.h2g", R: 3, Data: "6162"},
				{Op: "sleep", U: 300}, {Op: "e.sub", R: 2, A: 0}, {Op: "s.invert", R: 0}, {Op: "e.mul", R: 2, A: 0}}},
			{Acts: []act{{Op: "e.base", R: 0}, {Op: "e.sub", R: 0, A: 0}, {Op: "e.base", R: 1}, {Op: "e.add", R: 1, A: 0}, {Op: "e.add", R: 0, A: 1}, {Op: "e.negate", R: 0}, {Op: "e.add", R: 0, A: 1}}},
			{Acts: []act{{Op: "e.base", R: 0}, {Op: "e.copy", R: 1, A: 0}, {Op: "e.double", R: 1}, {Op: "e.set", R: 2, A: 1}, {Op: "e.sub", R: 2, A: 0}, {Op: "e.sub", R: 1, A: 1}, {Op: "e.add", R: 2, A: 1}}},
			{Acts: []act{{Op: "s.minusone", R: 0}, {Op: "e.base", R: 0}, {Op: "e.mul", R: 0, A: 0}, {Op: "e.base", R: 1}, {Op: "e.add", R: 1, A: 0}, {Op: "s.mul", R: 0, A: 0}, {Op: "s.add", R: 0, A: 0}, {Op: "s.cselect", R: 0, A: 0, B: 1, U: 2}}},
		}
	},
	Required: []string{"aliased-call", "z!=1", "steps>=10", "act:e.mul", "act:s.random", "act:e.decodebad", "chained-call"},
	Run:      runC10,
})

func TestC10History(t *testing.T) { c10.Execute(t) }
