package props

import (
	"bytes"
	"encoding"
	"encoding/base64"
	"encoding/hex"
	"encoding/json"
	"math/big"
	"strings"
	"testing"

	"github.com/bytemare/secp256k1"
	"github.com/bytemare/secp256k1/verifharness/gen"
	"github.com/bytemare/secp256k1/verifharness/pt"
	"github.com/bytemare/secp256k1/verifharness/ref"
	"pgregory.net/rapid"
)

// C03: element decoders accept exactly the canonical encodings of curve points; rejected inputs leave
// the receiver unchanged.

type caseC03 struct {
	Data    string `json:"data"`           // hex of the byte string (for "coordinates": x||y, 64 bytes)
	Decoder string `json:"decoder"`        // decode | compressed | uncompressed | coordinates | hex | unmarshal
	Text    string `json:"text,omitempty"` // literal string for the hex decoder
	TextHex string `json:"text_hex,omitempty"`
	// Huge > 0: the input is Data followed by zeros up to a total length of Huge bytes (2^32 + a valid length: what a length that
	// is compared after a conversion to 32 bits lets through); 64-bit platforms only, backed by an untouched mapping
	Huge    int64   `json:"huge,omitempty"` // the same as hex of the raw bytes (strings that are not valid UTF-8 do not survive JSON)
	Prior   pt.Spec `json:"prior"`
	Kind    string  `json:"kind"` // generator class, informational
	Nil     bool    `json:"nilin,omitempty"`
	ZeroRcv bool    `json:"zero_receiver,omitempty"` // the receiver is a zero-value struct (new(Element)) instead of Prior
	Pre     int     `json:"pre,omitempty"`           // the input is a sub-slice starting at this offset of a larger buffer
	Pad     int     `json:"pad,omitempty"`           // this many zero bytes are appended to the input (very long inputs)
	Tail    bool    `json:"tail,omitempty"`          // with Pre: the input ends exactly at the end of its heap allocation
	// FromRaw > 0 (white-box builds): the input is made of the RAW projective coordinates of the prior receiver, as if they were
	// affine: 1 02||X, 2 03||X, 3 04||X||Y, 4 02||Y, 5 02||Z (coordinates decoder: X||Y). What the receiver holds must not
	// influence what the input means.
	FromRaw int `json:"from_raw,omitempty"`
	// PrevData: right before the decode under test, this (valid) encoding is decoded into another object. Data is then a CHECKSUM
	// TWIN of it (gen/twins.go: same length, equal under the CRC family and the xor folds, or under the additive checksums),
	// on the curve or not: a verdict or a root remembered under a checksum of the input must not be handed to the twin.
	PrevData string `json:"prev_data,omitempty"`
}

var (
	two256    = new(big.Int).Lsh(bigOne, 256)
	aliasGap  = new(big.Int).Sub(two256, ref.P) // coordinates c < 2^32+977 have the alias c + p < 2^256
	smallOnX  []ref.Point                       // on-curve points with x < aliasGap (tiny x)
	smallOnY  []ref.Point                       // on-curve points with tiny y
	c03Decs   = []string{"decode", "decode", "decode", "compressed", "uncompressed", "coordinates", "hex", "unmarshal"}
	prefixSet = []byte{0, 1, 2, 3, 4, 5, 6, 7, 0xff}
)

func init() {
	for x := int64(1); len(smallOnX) < 24 && x < 400; x++ {
		if e, o, ok := ref.LiftX(big.NewInt(x)); ok {
			smallOnX = append(smallOnX, e, o)
		}
	}
	// tiny y: x^3 = y^2 - 7 needs a cube root; p = 7 mod 9 so a candidate is c^((p+2)/9), times powers of beta
	exp := new(big.Int).Div(new(big.Int).Add(ref.P, big.NewInt(2)), big.NewInt(9))
	for y := int64(1); len(smallOnY) < 12 && y < 400; y++ {
		c := new(big.Int).Mod(big.NewInt(y*y-7), ref.P)
		x := new(big.Int).Exp(c, exp, ref.P)
		for i := 0; i < 3; i++ {
			if ref.OnCurve(x, big.NewInt(y)) {
				smallOnY = append(smallOnY, ref.Point{X: new(big.Int).Set(x), Y: big.NewInt(y)})
				break
			}
			x = ref.FMul(x, ref.Beta)
		}
	}
	if len(smallOnX) == 0 || len(smallOnY) == 0 {
		panic("harness: no small on-curve coordinates found")
	}
}

func randomPoint(t *rapid.T) ref.Point {
	b := pt.Base{Kind: "liftx", X: gen.H(gen.Int(ref.P).Draw(t, "x")), Odd: rapid.Bool().Draw(t, "odd")}
	return b.Point()
}

func b32(v *big.Int) []byte {
	return ref.Bytes32(new(big.Int).Mod(v, two256))
}

func comp(prefix byte, x *big.Int) []byte { return append([]byte{prefix}, b32(x)...) }
func uncomp(prefix byte, x, y *big.Int) []byte {
	return append(append([]byte{prefix}, b32(x)...), b32(y)...)
}

// genElementBytes draws a byte string and the name of its class.
func genElementBytes(t *rapid.T) ([]byte, string) {
	kinds := []string{"valid-comp", "valid-uncomp", "identity", "prefix", "length", "x-range", "y-range", "alias-x", "alias-y",
		"y-mutated", "off-curve", "one-byte", "random", "random-33", "random-65", "cross", "other-format"}
	kind := kinds[gen.Pick(t, "kind", len(kinds))]
	p := randomPoint(t)
	switch kind {
	case "other-format": // a valid encoding in another format handed to the binary decoders: hex text, base64
		enc := ref.Compress(p)
		if rapid.Bool().Draw(t, "ofUnc") {
			enc = ref.Uncompressed(p)
		}
		switch gen.Pick(t, "otherFormat", 4) {
		case 0:
			return []byte(hex.EncodeToString(enc)), kind
		case 1:
			return []byte(strings.ToUpper(hex.EncodeToString(enc))), kind
		case 2:
			return []byte("0x" + hex.EncodeToString(enc)), kind
		default:
			return []byte(base64.StdEncoding.EncodeToString(enc)), kind
		}
	case "valid-comp":
		return ref.Compress(p), kind
	case "valid-uncomp":
		return ref.Uncompressed(p), kind
	case "identity":
		return []byte{0}, kind
	case "prefix":
		pre := rapid.SampledFrom(prefixSet).Draw(t, "prefix")
		if rapid.Bool().Draw(t, "u") {
			return uncomp(pre, p.X, p.Y), kind
		}
		return comp(pre, p.X), kind
	case "length":
		var b []byte
		if rapid.Bool().Draw(t, "u") {
			b = ref.Uncompressed(p)
		} else {
			b = ref.Compress(p)
		}
		switch rapid.IntRange(0, 4).Draw(t, "how") {
		case 0:
			return b[:len(b)-1], kind
		case 1:
			return append(b, 0), kind
		case 2:
			return append(b, b[1:33]...), kind
		case 3:
			return b[:rapid.IntRange(0, len(b)-1).Draw(t, "cut")], kind
		default:
			return append([]byte{0}, b...), kind
		}
	case "x-range", "y-range":
		var v *big.Int
		switch gen.Pick(t, "which", 7) {
		case 5:
			v = gen.PerturbWords(t, ref.P, 64)
		case 6:
			v = gen.PerturbWords(t, ref.P, 32)
		case 0:
			v = new(big.Int).Set(ref.P)
		case 1:
			v = new(big.Int).Add(ref.P, bigOne)
		case 2:
			v = new(big.Int).Sub(two256, bigOne)
		case 3:
			v = new(big.Int).Add(ref.P, new(big.Int).SetUint64(uint64(rapid.Uint32().Draw(t, "d"))))
		default:
			v = new(big.Int).Sub(ref.P, bigOne) // largest canonical value (usually off-curve)
		}
		if kind == "x-range" {
			if rapid.Bool().Draw(t, "u") {
				return uncomp(4, v, p.Y), kind
			}
			return comp(byte(2+rapid.IntRange(0, 1).Draw(t, "par")), v), kind
		}
		return uncomp(4, p.X, v), kind
	case "alias-x":
		q := rapid.SampledFrom(smallOnX).Draw(t, "q")
		ax := new(big.Int).Add(q.X, ref.P)
		if rapid.Bool().Draw(t, "u") {
			return uncomp(4, ax, q.Y), kind
		}
		return comp(byte(2+q.Y.Bit(0)), ax), kind
	case "alias-y":
		q := rapid.SampledFrom(smallOnY).Draw(t, "q")
		return uncomp(4, q.X, new(big.Int).Add(q.Y, ref.P)), kind
	case "y-mutated":
		var y *big.Int
		switch rapid.IntRange(0, 3).Draw(t, "how") {
		case 0:
			y = ref.FNeg(p.Y) // still valid: the other root
		case 1:
			y = new(big.Int).Add(p.Y, bigOne)
		case 2:
			y = new(big.Int).Sub(p.Y, bigOne)
		default:
			y = new(big.Int).Xor(p.Y, new(big.Int).Lsh(bigOne, uint(rapid.IntRange(0, 255).Draw(t, "bit"))))
		}
		if y.Sign() < 0 {
			y.Add(y, two256)
		}
		return uncomp(4, p.X, y), kind
	case "off-curve":
		// walk x upwards until x^3 + 7 is a non-residue
		x := new(big.Int).Set(p.X)
		for {
			x.Add(x, bigOne).Mod(x, ref.P)
			if _, _, ok := ref.LiftX(x); !ok {
				break
			}
		}
		if rapid.Bool().Draw(t, "u") {
			return uncomp(4, x, p.Y), kind
		}
		return comp(byte(2+rapid.IntRange(0, 1).Draw(t, "par")), x), kind
	case "one-byte":
		return []byte{rapid.Byte().Draw(t, "b")}, kind
	case "random":
		return gen.Bytes(0, 80).Draw(t, "rnd"), kind
	case "random-33":
		b := gen.RandBytes(t, "rnd", 33)
		b[0] = 2 + b[0]&1
		return b, kind
	case "random-65":
		b := gen.RandBytes(t, "rnd", 65)
		b[0] = 4
		return b, kind
	default: // cross: prefix/length cross-overs and hybrid forms
		switch rapid.IntRange(0, 5).Draw(t, "how") {
		case 0:
			return comp(4, p.X), kind
		case 1:
			return uncomp(byte(2+p.Y.Bit(0)), p.X, p.Y), kind
		case 2:
			return uncomp(byte(6+p.Y.Bit(0)), p.X, p.Y), kind // SEC1 hybrid form: not accepted here
		case 3:
			return comp(0, new(big.Int)), kind
		case 4:
			return uncomp(0, new(big.Int), new(big.Int)), kind
		default:
			return uncomp(4, new(big.Int), bigOne), kind // the former "identity" uncompressed form
		}
	}
}

func snapshotElement(b *pt.Built) (enc, unc []byte, isID bool) {
	return b.E.Encode(), b.E.EncodeUncompressed(), b.E.IsIdentity()
}

var c03 = gen.Register(&gen.Check[caseC03]{
	Name: "C03/decoders",
	Gen: func(t *rapid.T) caseC03 {
		data, kind := genElementBytes(t)
		c := caseC03{Kind: kind, Decoder: rapid.SampledFrom(c03Decs).Draw(t, "decoder"), Prior: pt.SpecGen(2, false).Draw(t, "prior")}
		if c.Decoder == "coordinates" {
			// DecodeCoordinates takes two 32-byte arrays: use the coordinate part of 65-byte strings, else build one
			if len(data) != 65 {
				p := randomPoint(t)
				data = ref.Uncompressed(p)
				if len(data) == 65 && rapid.Bool().Draw(t, "swapxy") {
					data = uncomp(4, p.Y, p.X)
				}
			}
			data = data[1:]
		}
		if c.Decoder != "coordinates" && gen.Chance(t, "twinOfValid", 1, 10) {
			enc := ref.Compress(randomPoint(t))
			if gen.Chance(t, "twinUncompressed", 1, 4) {
				enc = ref.Uncompressed(randomPoint(t))
			}
			if len(enc) > 1 {
				tw := gen.CRCTwins(enc, 1, len(enc), 40)
				if tk := gen.Pick(t, "twinKind", 3); tk == 1 {
					tw = gen.CRCTwins(enc[1:33], 0, 32, 40) // (a checksum over the abscissa alone)
					for i := range tw {
						tw[i] = append(append([]byte{enc[0]}, tw[i]...), enc[33:]...)
					}
				} else if tk == 2 {
					tw = gen.AdditiveTwins(enc[1:], 30)
					for i := range tw {
						tw[i] = append([]byte{enc[0]}, tw[i]...)
					}
				}
				if len(tw) > 0 {
					data, kind = tw[gen.Pick(t, "twinIdx", len(tw))], "checksum-twin-of-valid"
					c.PrevData, c.Kind = hex.EncodeToString(enc), kind
				}
			}
		}
		c.Data = hex.EncodeToString(data)
		if c.Decoder == "hex" {
			txt := c.Data
			switch gen.Pick(t, "hexKind", 10) {
			case 8, 9: // what "lenient" parsers tolerate around a hex string: prefixes, suffixes, separators, quotes, white space
				deco := [][2]string{{"0x", ""}, {"0X", ""}, {"", "\n"}, {" ", ""}, {"", " "}, {"\"", "\""}, {"#", ""}, {"\\x", ""}, {"", "h"}, {"0x", "\n"}, {"+", ""}, {"", "\x00"}, {"\ufeff", ""}, {"", "\r\n"}}[gen.Pick(t, "hexDeco", 14)]
				txt = deco[0] + txt + deco[1]
			case 0:
				txt = strings.ToUpper(txt)
			case 3: // two hex digits replaced by one 2-byte rune whose low code-point byte is a hex digit (same byte length)
				if len(txt) >= 2 {
					i := 2 * rapid.IntRange(0, len(txt)/2-1).Draw(t, "upos")
					txt = txt[:i] + rapid.SampledFrom([]string{"\u0130", "\u0141", "\u0166", "\u0361"}).Draw(t, "urune") + txt[i+2:]
				}
			case 4:
				if len(txt) >= 4 {
					i := rapid.IntRange(0, len(txt)-3).Draw(t, "upos3")
					txt = txt[:i] + rapid.SampledFrom([]string{"\u3066", "\u3041", "\uff10"}).Draw(t, "urune3") + txt[i+3:]
				}
			case 1:
				txt += "0"
			case 2:
				if len(txt) > 0 {
					i := rapid.IntRange(0, len(txt)-1).Draw(t, "pos")
					txt = txt[:i] + rapid.SampledFrom([]string{"g", "x", " ", "-"}).Draw(t, "rune") + txt[i+1:]
				}
			}
			c.Text = txt
			if k := gen.Pick(t, "textDecoder", 6); k < 2 {
				c.Decoder = []string{"text", "json"}[k]
			}
		}
		if len(data) == 0 {
			c.Nil = rapid.Bool().Draw(t, "nil")
		}
		c.ZeroRcv = gen.Chance(t, "zeroRcv", 1, 6)
		if !c.ZeroRcv && gen.Chance(t, "fromRaw", 1, 10) {
			c.FromRaw = 1 + gen.Pick(t, "rawKind", 5)
		}
		if len(data) > 0 && c.Decoder != "coordinates" && gen.Chance(t, "interior", 1, 3) {
			c.Pre = rapid.IntRange(1, 15).Draw(t, "pre")
			c.Tail = gen.Chance(t, "tail", 1, 3)
		}
		return c
	},
	Fixed: func() []caseC03 {
		var out []caseC03
		prior := pt.Spec{Base: pt.Base{Kind: "kg", K: 3}, Steps: []pt.Step{{Op: "dblsub"}}}
		for b := 0; b < 256; b++ { // all one-byte strings, exhaustively
			out = append(out, caseC03{Data: hex.EncodeToString([]byte{byte(b)}), Decoder: "decode", Prior: prior, Kind: "one-byte"})
		}
		for _, v := range append(gen.WordProducts(ref.P, 64, gen.Neighbours5), gen.WordProducts(ref.P, 32, gen.Neighbours3)...) {
			out = append(out, caseC03{Data: hex.EncodeToString(comp(byte(2+v.Bit(0)), v)), Decoder: "decode", Prior: prior, Kind: "x-range"})
		}
		g := ref.G()
		mk := func(d []byte, dec, kind string) {
			c := caseC03{Data: hex.EncodeToString(d), Decoder: dec, Prior: prior, Kind: kind}
			if isTextDec(dec) {
				c.Text = c.Data
			}
			out = append(out, c)
		}
		// the hex TEXT of valid encodings handed to the binary decoders
		for _, dec := range []string{"decode", "unmarshal", "compressed", "uncompressed"} {
			for _, enc := range [][]byte{ref.Compress(g), ref.Uncompressed(g), {0}} {
				txt := hex.EncodeToString(enc)
				mk([]byte(txt), dec, "other-format")
				mk([]byte(strings.ToUpper(txt)), dec, "other-format")
			}
		}
		// inputs of 2^32 (2^33) bytes plus a valid length
		for _, dec := range []string{"decode", "unmarshal", "compressed", "uncompressed"} {
			for _, head := range [][]byte{{0}, ref.Compress(g), ref.Uncompressed(g)} {
				for _, base := range []int64{1 << 32, 1 << 33} {
					out = append(out, caseC03{Data: hex.EncodeToString(head), Decoder: dec, Prior: prior, Kind: "huge", Huge: base + int64(len(head))})
				}
			}
		}
		// every byte value at a few positions of a valid hex string (what a hand-rolled hex digit test lets through)
		for _, dec := range []string{"hex", "text"} {
			txt := hex.EncodeToString(ref.Compress(g))
			for _, pos := range []int{0, 1, 2, 33, len(txt) - 2, len(txt) - 1} {
				for b := 0; b < 256; b++ {
					if byte(b) == txt[pos] {
						continue
					}
					mut := txt[:pos] + string([]byte{byte(b)}) + txt[pos+1:]
					c := caseC03{Decoder: dec, Prior: prior, Kind: "hex-byte", TextHex: hex.EncodeToString([]byte(mut))}
					if isHex(mut) {
						d, _ := hex.DecodeString(mut)
						c.Data = hex.EncodeToString(d)
					}
					out = append(out, c)
				}
			}
		}
		// coordinates aimed at the constants found in the sources of the tree under test
		for i, v := range gen.DictFixed(ref.P, 2*gen.DictStride()) {
			data := append([]byte{byte(2 + i%2)}, ref.Bytes32(v)...)
			kind := "dictionary-x"
			if even, odd, ok := ref.LiftX(v); ok && i%3 == 0 {
				data = ref.Uncompressed([]ref.Point{even, odd}[i%2])
			}
			out = append(out, caseC03{Data: hex.EncodeToString(data), Decoder: []string{"decode", "unmarshal", "compressed"}[i%3], Prior: prior, Kind: kind})
		}
		// very long inputs whose length is congruent to a valid length modulo 2^8 / 2^16 (length fields that get truncated)
		for _, dec := range []string{"decode", "unmarshal", "hex", "text", "json"} {
			for _, head := range [][]byte{{0}, ref.Compress(g), ref.Uncompressed(g)} {
				for _, m := range []int{256, 65536, 131072} {
					c := caseC03{Data: hex.EncodeToString(head), Decoder: dec, Prior: prior, Kind: "length", Pad: m}
					if isTextDec(dec) {
						c.Text = hex.EncodeToString(append(append([]byte{}, head...), make([]byte, m)...))
						c.Pad = 0
					}
					out = append(out, c)
				}
			}
		}
		for _, dec := range []string{"decode", "hex", "unmarshal", "text", "json"} {
			c := caseC03{Data: "00", Decoder: dec, Prior: prior, Kind: "identity", ZeroRcv: true}
			if isTextDec(dec) {
				c.Text = "00"
			}
			out = append(out, c)
		}
		for _, dec := range []string{"decode", "compressed", "uncompressed", "hex", "unmarshal", "text", "json"} {
			mk(ref.Compress(g), dec, "valid-comp")
			mk(ref.Uncompressed(g), dec, "valid-uncomp")
			mk([]byte{0}, dec, "identity")
			mk(nil, dec, "length")
			for _, q := range smallOnX[:4] {
				mk(comp(byte(2+q.Y.Bit(0)), new(big.Int).Add(q.X, ref.P)), dec, "alias-x")
				mk(uncomp(4, new(big.Int).Add(q.X, ref.P), q.Y), dec, "alias-x")
				mk(ref.Compress(q), dec, "valid-comp")
			}
			for _, q := range smallOnY[:2] {
				mk(uncomp(4, q.X, new(big.Int).Add(q.Y, ref.P)), dec, "alias-y")
				mk(ref.Uncompressed(q), dec, "valid-uncomp")
			}
			mk(uncomp(6, g.X, g.Y), dec, "cross")
			mk(uncomp(7, g.X, g.Y), dec, "cross")
			mk(comp(2, ref.P), dec, "x-range")
			mk(comp(2, new(big.Int)), dec, "off-curve") // x = 0: 7 is a non-residue
			mk(uncomp(4, new(big.Int), bigOne), dec, "cross")
		}
		return out
	},
	Required: []string{"accepted", "reject:length", "reject:prefix", "reject:range-x", "reject:range-y", "reject:not-on-curve", "reject:hex",
		"kind:alias-x", "kind:alias-y", "dec:coordinates", "dec:compressed", "dec:uncompressed", "prior:z!=1-or-identity", "zero-value-receiver"},
	Run: func(c caseC03, o *gen.Obs) error {
		// every case is evaluated twice in a row: the verdict on an input must not depend on the input having been
		// presented just before (decoders that remember their last input)
		if err := c03Once(c, o); err != nil {
			return err
		}
		if err := c03Once(c, &gen.Obs{}); err != nil {
			return gen.Fail("repeat/"+errClass(err), "second presentation of the same input: %v", err)
		}
		return nil
	},
})

func TestC03Decoders(t *testing.T) { c03.Execute(t) }

func isTextDec(dec string) bool { return dec == "hex" || dec == "text" || dec == "json" }

func c03Huge(c caseC03, o *gen.Obs) error {
	data, release := gen.Huge(c.Huge, gen.HexBytes(c.Data))
	defer release()
	if data == nil {
		o.Class("skipped:no-huge-slices-here")
		return nil
	}
	o.Class("input>=2^32")
	o.NonTrivial()
	prior, err := pt.Build(c.Prior)
	if err != nil {
		return nil
	}
	enc0 := prior.E.Encode()
	var derr error
	switch c.Decoder {
	case "unmarshal":
		derr = prior.E.UnmarshalBinary(data)
	case "compressed":
		derr = prior.E.DecodeCompressed(data)
	case "uncompressed":
		derr = prior.E.DecodeUncompressed(data)
	default:
		derr = prior.E.Decode(data)
	}
	if derr == nil {
		return gen.Fail("Decode["+c.Decoder+"]/accepts-invalid:length", "%s accepted an input of %d bytes starting with %s", c.Decoder, c.Huge, c.Data)
	}
	if !bytes.Equal(prior.E.Encode(), enc0) {
		return gen.Fail("Decode["+c.Decoder+"]/rejected-changes-receiver", "a rejected input of %d bytes changed the receiver", c.Huge)
	}
	return nil
}

func c03Once(c caseC03, o *gen.Obs) error {
	if c.Huge > 0 {
		return c03Huge(c, o)
	}
	if c.TextHex != "" {
		c.Text = string(gen.HexBytes(c.TextHex))
	}
	prior, err := pt.Build(c.Prior)
	if err != nil {
		o.Class("skipped:builder-error")
		return nil
	}
	data := gen.HexBytes(c.Data)
	if c.PrevData != "" {
		o.Class("after-checksum-twin")
		if perr := secp256k1.NewElement().Decode(gen.HexBytes(c.PrevData)); perr != nil {
			return gen.Fail("Decode[decode]/rejects-valid", "the valid encoding %s was rejected: %v", c.PrevData, perr)
		}
	}
	if c.FromRaw > 0 {
		if !prior.RawKnown {
			o.Class("skipped:raw-coordinates-unknown")
			return nil
		}
		x, y, z := ref.Bytes32(prior.X), ref.Bytes32(prior.Y), ref.Bytes32(prior.Z)
		switch c.FromRaw {
		case 1:
			data = append([]byte{2}, x...)
		case 2:
			data = append([]byte{3}, x...)
		case 3:
			data = append(append([]byte{4}, x...), y...)
		case 4:
			data = append([]byte{2}, y...)
		default:
			data = append([]byte{2}, z...)
		}
		switch c.Decoder {
		case "coordinates":
			data = append(append([]byte{}, x...), y...)
		case "hex", "text", "json":
			c.Text = hex.EncodeToString(data)
		case "compressed":
			if len(data) != 33 {
				data = append([]byte{3}, x...)
			}
		case "uncompressed":
			data = append(append([]byte{4}, x...), y...)
		}
		c.Pad, c.Nil = 0, false
		o.Class("input-from-raw-coordinates")
	}
	if c.Pad > 0 {
		data = append(data, make([]byte, c.Pad)...)
		o.Class("very-long-input")
	}
	if c.Pre > 0 && c.Decoder != "hex" && c.Decoder != "text" && c.Decoder != "json" {
		lay := gen.Layout{Pre: c.Pre, Post: 3, Fill: c.Pre % gen.NumFills}
		if c.Tail {
			lay.Tail, lay.Post = true, 0
			o.Class("input-at-allocation-tail")
		}
		data, _ = gen.Place(data, lay)
		o.Class("input-interior")
	}
	if c.Nil {
		data = nil
	}
	if c.ZeroRcv {
		prior = &pt.Built{E: new(secp256k1.Element)}
		o.Class("zero-value-receiver")
	}
	enc0, unc0, id0 := snapshotElement(prior)
	o.Class("kind:" + c.Kind)
	o.Class("dec:" + c.Decoder)
	o.ClassIf(len(c.Prior.Steps) > 0 || c.Prior.Base.Kind == "id", "prior:z!=1-or-identity")
	var (
		want   ref.Point
		reason string
		derr   error
		e      = prior.E
		input  = append([]byte(nil), data...)
	)
	switch c.Decoder {
	case "decode":
		want, reason = ref.Decode(ref.FormAny, data)
		derr = e.Decode(data)
	case "unmarshal":
		want, reason = ref.Decode(ref.FormAny, data)
		derr = e.UnmarshalBinary(data)
	case "compressed":
		want, reason = ref.Decode(ref.FormCompressed, data)
		derr = e.DecodeCompressed(data)
	case "uncompressed":
		want, reason = ref.Decode(ref.FormUncompressed, data)
		derr = e.DecodeUncompressed(data)
	case "coordinates":
		if len(data) != 64 {
			panic("harness: coordinates case needs 64 bytes")
		}
		want, reason = ref.DecodeCoordinates(data[:32], data[32:])
		derr = e.DecodeCoordinates([32]byte(data[:32]), [32]byte(data[32:]))
	case "hex", "text", "json":
		if isHex(c.Text) {
			data, _ = hex.DecodeString(c.Text)
			input = append([]byte(nil), data...)
			want, reason = ref.Decode(ref.FormAny, data)
		} else {
			reason = "hex"
		}
		switch c.Decoder {
		case "hex":
			derr = e.DecodeHex(c.Text)
		default:
			// whatever text decoder the type implements (encoding.TextUnmarshaler: what encoding/json, encoding/xml, flag.TextVar
			// use) is a hex decoder of this package too: same acceptance, same value, same treatment of the receiver. The unchanged
			// tree implements none: the case is then skipped.
			tu, ok := any(e).(encoding.TextUnmarshaler)
			if !ok {
				o.Class("skipped:no-text-unmarshaler")
				return nil
			}
			o.Class("text-unmarshaler")
			if c.Decoder == "text" {
				derr = tu.UnmarshalText([]byte(c.Text))
			} else if q, qerr := json.Marshal(c.Text); qerr == nil {
				derr = json.Unmarshal(q, e)
			}
		}
	default:
		panic("decoder")
	}
	if !bytes.Equal(input, data) {
		return gen.Fail("Decode/mutates-input", "the decoder modified its input")
	}
	if reason == ref.ReasonOK {
		o.Class("accepted")
	} else {
		o.Class("reject:" + reason)
	}
	o.NonTrivialIf(c.Kind != "random" || reason == ref.ReasonOK || (len(data) == 33 || len(data) == 65 || len(data) == 1))
	site := "Decode[" + c.Decoder + "]"
	if reason != ref.ReasonOK {
		if derr == nil {
			return gen.Fail(site+"/accepts-invalid:"+reason, "%s accepted %x%s (must be rejected: %s); receiver now %x", c.Decoder, data, c.Text, reason, e.Encode())
		}
		enc1, unc1, id1 := snapshotElement(prior)
		if !bytes.Equal(enc0, enc1) || !bytes.Equal(unc0, unc1) || id0 != id1 {
			return gen.Fail(site+"/rejected-changes-receiver", "rejected input %x%s (%s) changed the receiver from %x to %x", data, c.Text, reason, enc0, enc1)
		}
		return nil
	}
	if derr != nil {
		if (c.Decoder == "hex" || c.Decoder == "text" || c.Decoder == "json") && c.Text != strings.ToLower(c.Text) {
			o.Class("hex-uppercase-rejected")
			return nil // whether upper-case hex digits are accepted is not part of the statement
		}
		return gen.Fail(site+"/rejects-valid", "%s rejected the valid encoding %x of %s: %v", c.Decoder, data, want, derr)
	}
	if got := e.Encode(); !bytes.Equal(got, ref.Compress(want)) {
		return gen.Fail(site+"/value", "decoded %x to %x, want %x", data, got, ref.Compress(want))
	}
	if !want.Inf {
		if got := e.EncodeUncompressed(); !bytes.Equal(got, ref.Uncompressed(want)) {
			return gen.Fail(site+"/value-y", "decoded %x to %x, want %x", data, got, ref.Uncompressed(want))
		}
	}
	if e.IsIdentity() != want.Inf {
		return gen.Fail(site+"/is-identity", "IsIdentity = %v after decoding %x", e.IsIdentity(), data)
	}
	// the receiver now IS that point: it must also behave like it in the next operation
	if got := e.Copy().Add(secp256k1.Base()).Encode(); !bytes.Equal(got, ref.Compress(ref.Add(want, ref.G()))) {
		return gen.Fail(site+"/value-behaviour", "after decoding %x the receiver encodes correctly but receiver + G = %x, want %x", data, got, ref.Compress(ref.Add(want, ref.G())))
	}
	if got := secp256k1.Base().Equal(e); (got == 1) != want.Equal(ref.G()) {
		return gen.Fail(site+"/value-behaviour", "after decoding %x, Equal(G, receiver) = %d", data, got)
	}
	// the input buffer belongs to the caller, who re-uses it (a receive buffer, zeroisation): the decoded object keeps its value
	if c.Decoder != "hex" && c.Decoder != "text" && c.Decoder != "json" && len(data) <= 1<<16 {
		for i := range data {
			data[i] ^= 0xA5
		}
		if got := e.Encode(); !bytes.Equal(got, ref.Compress(want)) {
			return gen.Fail(site+"/keeps-input-slice", "after the caller overwrote the buffer it had passed to %s, the decoded object encodes to %x instead of %x", c.Decoder, got, ref.Compress(want))
		}
		if got, werr := e.MarshalBinary(); werr != nil || !bytes.Equal(got, ref.Compress(want)) {
			return gen.Fail(site+"/keeps-input-slice", "after the caller overwrote the buffer it had passed to %s, the decoded object marshals to %x instead of %x", c.Decoder, got, ref.Compress(want))
		}
		if got := e.Copy().Encode(); !bytes.Equal(got, ref.Compress(want)) {
			return gen.Fail(site+"/keeps-input-slice", "after the caller overwrote the buffer it had passed to %s, a copy of the decoded object encodes to %x instead of %x", c.Decoder, got, ref.Compress(want))
		}
	}
	return nil
}
