package props

import (
	"bytes"
	"encoding/hex"
	"math/big"
	"testing"
	"unsafe"

	"github.com/bytemare/secp256k1"
	"github.com/bytemare/secp256k1/verifharness/gen"
	"github.com/bytemare/secp256k1/verifharness/pt"
	"github.com/bytemare/secp256k1/verifharness/ref"
	"pgregory.net/rapid"
)

// C15: API calls never write to caller-owned memory (other than the receiver) and return fresh buffers.

type caseC15 struct {
	Call   string     `json:"call"`
	Msg    string     `json:"msg,omitempty"`
	Dst    string     `json:"dst,omitempty"`
	Data   string     `json:"data,omitempty"` // an encoding handed to a decoder
	MsgLay gen.Layout `json:"msg_layout"`
	DstLay gen.Layout `json:"dst_layout"`
	Shared bool       `json:"shared,omitempty"` // msg and dst are adjacent sub-slices of one backing array
	P      pt.Spec    `json:"p"`
	Q      pt.Spec    `json:"q"`
	S      SV         `json:"s"`
	T      SV         `json:"t"`
	Cond   uint64     `json:"cond,omitempty"`
}

var (
	c15hash   = []string{"HashToGroup", "EncodeToGroup", "HashToScalar"}
	c15decE   = []string{"E.Decode", "E.DecodeCompressed", "E.DecodeUncompressed", "E.UnmarshalBinary"}
	c15decS   = []string{"S.Decode", "S.UnmarshalBinary"}
	c15ret    = []string{"E.Encode", "E.EncodeUncompressed", "E.XCoordinate", "E.MarshalBinary", "S.Encode", "S.MarshalBinary", "Order"}
	c15ptrE   = []string{"E.Add", "E.Subtract", "E.Set", "E.Equal", "E.Multiply"}
	c15ptrS   = []string{"S.Add", "S.Subtract", "S.Multiply", "S.Set", "S.Equal", "S.LessOrEqual", "S.Pow", "S.CSelect"}
	c15groups = [][]string{c15hash, c15hash, c15decE, c15decS, c15ret, c15ret, c15ptrE, c15ptrS}
)

// guarded is an input slice together with its whole backing array and a snapshot of it.
type guarded struct {
	slice, backing, snap []byte
}

func guard(data []byte, l gen.Layout) guarded {
	s, b := gen.Place(data, l)
	return guarded{slice: s, backing: b, snap: append([]byte(nil), b...)}
}

func (g guarded) intact() (int, bool) {
	for i := range g.backing {
		if g.backing[i] != g.snap[i] {
			return i, false
		}
	}
	return 0, true
}

func overlap(a, b []byte) bool {
	if cap(a) == 0 || cap(b) == 0 {
		return false
	}
	pa := uintptr(unsafe.Pointer(unsafe.SliceData(a)))
	pb := uintptr(unsafe.Pointer(unsafe.SliceData(b)))
	return pa < pb+uintptr(cap(b)) && pb < pa+uintptr(cap(a))
}

// scribble overwrites a returned slice up to its capacity.
func scribble(b []byte) {
	b = b[:cap(b)]
	for i := range b {
		b[i] ^= 0xff
		b[i] += 13
	}
}

var c15 = gen.Register(&gen.Check[caseC15]{
	Name: "C15/memory",
	Gen: func(t *rapid.T) caseC15 {
		grp := c15groups[gen.Pick(t, "group", len(c15groups))]
		c := caseC15{Call: rapid.SampledFrom(grp).Draw(t, "call"), P: pt.SpecGen(2, false).Draw(t, "p"), Q: pt.SpecGen(2, false).Draw(t, "q"),
			S: SVGen().Draw(t, "s"), T: SVGen().Draw(t, "t"), MsgLay: gen.LayoutGen().Draw(t, "ml"), DstLay: gen.LayoutGen().Draw(t, "dl")}
		msg, dst := genMsgDst(t)
		c.Msg, c.Dst = hex.EncodeToString(msg), hex.EncodeToString(dst)
		c.Shared = gen.Chance(t, "shared", 1, 4)
		c.Cond = rapid.SampledFrom(condWords).Draw(t, "cond")
		switch {
		case c.Call[0] == 'E' && len(c.Call) > 8 && c.Call[:8] == "E.Decode" || c.Call == "E.UnmarshalBinary":
			d, _ := genElementBytes(t)
			c.Data = hex.EncodeToString(d)
		case c.Call == "S.Decode" || c.Call == "S.UnmarshalBinary":
			c.Data = hex.EncodeToString(genScalarBytes(t))
		}
		return c
	},
	Fixed: func() []caseC15 {
		g := pt.Spec{Base: pt.Base{Kind: "g"}}
		s := SV{Hex: gen.H(big.NewInt(5))}
		var out []caseC15
		for _, call := range c15hash {
			for _, dl := range []int{18, 255, 256, 300} {
				for _, post := range []int{1, 64} {
					out = append(out, caseC15{Call: call, Msg: "616263", Dst: hex.EncodeToString(bytes.Repeat([]byte{'D'}, dl)), DstLay: gen.Layout{Pre: 3, Post: post}, P: g, Q: g, S: s, T: s})
				}
			}
			out = append(out, caseC15{Call: call, Msg: "616263", Dst: hex.EncodeToString(bytes.Repeat([]byte{'D'}, 20)), Shared: true, DstLay: gen.Layout{Post: 8}, P: g, Q: g, S: s, T: s})
		}
		for _, call := range c15ret {
			out = append(out, caseC15{Call: call, P: g, Q: g, S: s, T: s}, caseC15{Call: call, P: pt.Spec{Base: pt.Base{Kind: "id"}}, Q: g, S: s, T: s})
		}
		return out
	},
	Required: []string{"layout:dst-spare-capacity", "layout:shared", "returns-slice", "hash", "decoder", "pointer-arg"},
	Run: func(c caseC15, o *gen.Obs) error {
		hostileCaller() // (incl. the probe of functions the tree added to the API: their byte-slice and pointer arguments are caller memory too)
		p, err := pt.Build(c.P)
		if err != nil {
			o.Class("skipped:builder-error")
			return nil
		}
		q, err := pt.Build(c.Q)
		if err != nil {
			o.Class("skipped:builder-error")
			return nil
		}
		s, t := c.S.Build(), c.T.Build()
		o.Class("call:" + c.Call)
		qEnc, tLimbs := q.E.Encode(), t.S
		qUnc, qID := q.E.EncodeUncompressed(), q.E.IsIdentity()
		// the memory of the argument objects themselves (taken after the last observer above, compared before the next one): "no API
		// call modifies memory owned by the caller other than its receiver" - a value-preserving rewrite of an argument (an in-place
		// normalisation, a cache filled into it) is a write to caller memory all the same, and a data race for concurrent readers
		qMem, tMem := rawMemory(q.E), rawMemory(t)
		argsIntact := func() error {
			if !bytes.Equal(rawMemory(q.E), qMem) {
				return gen.Fail(c.Call+"/writes-element-argument-memory", "the memory of the element argument changed (its value may be the same): %x -> %x", qMem, rawMemory(q.E))
			}
			if !bytes.Equal(rawMemory(t), tMem) {
				return gen.Fail(c.Call+"/writes-scalar-argument-memory", "the memory of the scalar argument changed: %x -> %x", tMem, rawMemory(t))
			}
			if !bytes.Equal(q.E.Encode(), qEnc) || !bytes.Equal(q.E.EncodeUncompressed(), qUnc) || q.E.IsIdentity() != qID {
				return gen.Fail(c.Call+"/mutates-element-argument", "element argument changed from %x to %x", qEnc, q.E.Encode())
			}
			if t.S != tLimbs {
				return gen.Fail(c.Call+"/mutates-scalar-argument", "scalar argument changed from %v to %v", tLimbs, t.S)
			}
			return nil
		}

		switch {
		case contains(c15hash, c.Call):
			o.Class("hash")
			msgData, dstData := gen.HexBytes(c.Msg), gen.HexBytes(c.Dst)
			var gm, gd guarded
			if c.Shared {
				// one backing array: [pre | msg | dst | post]; msg's capacity extends over dst
				o.Class("layout:shared")
				buf := make([]byte, c.MsgLay.Pre+len(msgData)+len(dstData)+c.DstLay.Post)
				for i := range buf {
					buf[i] = gen.Canary(i)
				}
				a := c.MsgLay.Pre
				copy(buf[a:], msgData)
				copy(buf[a+len(msgData):], dstData)
				snap := append([]byte(nil), buf...)
				gm = guarded{slice: buf[a : a+len(msgData)], backing: buf, snap: snap}
				gd = guarded{slice: buf[a+len(msgData) : a+len(msgData)+len(dstData) : len(buf)], backing: buf, snap: snap}
			} else {
				gm, gd = guard(msgData, c.MsgLay), guard(dstData, c.DstLay)
			}
			o.ClassIf(cap(gd.slice) > len(gd.slice), "layout:dst-spare-capacity")
			o.ClassIf(cap(gm.slice) > len(gm.slice), "layout:msg-spare-capacity")
			o.ClassIf(len(dstData) > 255, "dst>255")
			o.NonTrivialIf(cap(gd.slice) > len(gd.slice) || cap(gm.slice) > len(gm.slice) || c.Shared || c.MsgLay.Pre > 0 || c.DstLay.Pre > 0)
			// a REJECTED call first (empty DST: the documented panic, recovered), whose arguments are zero-length slices of canary
			// buffers with spare capacity, and a message: these buffers stay the caller's as well
			rejMsg, rejDst := guard([]byte("rejected-message"), gen.Layout{Pre: 2, Post: 9}), guard(nil, gen.Layout{Pre: 3, Post: 64, Fill: c.DstLay.Fill})
			rejDst.slice = rejDst.backing[3:3:len(rejDst.backing)]
			if c.Cond%2 == 0 {
				if _, pnc := callHash(map[string]string{"HashToGroup": "ro", "EncodeToGroup": "nu", "HashToScalar": "scalar"}[c.Call], rejMsg.slice, rejDst.slice); pnc == nil {
					return gen.Fail(c.Call+"/empty-dst-accepted", "a zero-length DST with capacity was accepted")
				}
				o.Class("after-rejected-call")
			}
			if _, pnc := callHash(map[string]string{"HashToGroup": "ro", "EncodeToGroup": "nu", "HashToScalar": "scalar"}[c.Call], gm.slice, gd.slice); pnc != nil {
				return gen.Fail(c.Call+"/panic", "panic: %v", pnc)
			}
			if i, ok := gd.intact(); !ok {
				return gen.Fail(c.Call+"/writes-dst-backing-array", "%s wrote to the caller's DST buffer: byte %d of the backing array (dst is [%d:%d], cap to %d) changed from %#x to %#x",
					c.Call, i, len(gd.backing)-cap(gd.slice), len(gd.backing)-cap(gd.slice)+len(gd.slice), len(gd.backing), gd.snap[i], gd.backing[i])
			}
			if i, ok := gm.intact(); !ok {
				return gen.Fail(c.Call+"/writes-msg-backing-array", "%s wrote to the caller's message buffer at byte %d", c.Call, i)
			}
			// the buffers stay the caller's after the call returned: later calls (with other, shorter arguments that
			// would fit into these buffers) must not touch them either
			// ... and later calls of another SHAPE: what a call does with something an earlier call left behind depends on its own
			// path (a tag of 49 or 255 bytes, an oversize tag that is hashed into a scratch area first, a message of several blocks);
			// in half of the cases these come first, directly after the call under test (the next call sees what that call left)
			shape := len(msgData)*7 + len(dstData)*3 + int(c.Cond%5)
			shortLater := func() error {
				for k, fn := range []string{"scalar", "ro", "nu"} {
					later := []byte("later-dst-0123456789")[:5+5*k]
					if _, pnc := callHash(fn, []byte{byte(k)}, later); pnc != nil {
						return gen.Fail(c.Call+"/panic", "panic in a later call: %v", pnc)
					}
				}
				return nil
			}
			if shape/10%2 == 1 {
				if err := shortLater(); err != nil {
					return err
				}
			}
			laterLong := make([]byte, []int{49, 255, 256, 300, 1000}[shape%5])
			for i := range laterLong {
				laterLong[i] = byte('a' + i%23)
			}
			laterMsg := make([]byte, []int{0, 200}[shape/5%2])
			o.ClassIf(len(laterLong) > 255, "later-call-with-oversize-dst")
			o.ClassIf(len(laterLong) <= 255, "later-call-with-long-dst")
			for _, fn := range []string{"scalar", "ro", "nu"} {
				if _, pnc := callHash(fn, laterMsg, laterLong); pnc != nil {
					return gen.Fail(c.Call+"/panic", "panic in a later call: %v", pnc)
				}
			}
			if shape/10%2 == 0 {
				o.Class("other-shape-directly-after")
				if err := shortLater(); err != nil {
					return err
				}
			}
			if i, ok := gd.intact(); !ok {
				return gen.Fail(c.Call+"/retains-dst-buffer", "a later hashing call wrote to the DST buffer of an earlier %s call (byte %d of its backing array: %#x -> %#x)", c.Call, i, gd.snap[i], gd.backing[i])
			}
			if i, ok := gm.intact(); !ok {
				return gen.Fail(c.Call+"/retains-msg-buffer", "a later hashing call wrote to the message buffer of an earlier %s call (byte %d)", c.Call, i)
			}
			if i, ok := rejDst.intact(); !ok {
				return gen.Fail(c.Call+"/retains-rejected-dst-buffer", "a hashing call wrote to the buffer behind the zero-length DST of an earlier, rejected %s call (byte %d: %#x -> %#x)", c.Call, i, rejDst.snap[i], rejDst.backing[i])
			}
			if i, ok := rejMsg.intact(); !ok {
				return gen.Fail(c.Call+"/retains-rejected-msg-buffer", "a hashing call wrote to the message buffer of an earlier, rejected %s call (byte %d)", c.Call, i)
			}
			return nil

		case contains(c15decE, c.Call) || contains(c15decS, c.Call):
			o.Class("decoder")
			g := guard(gen.HexBytes(c.Data), c.MsgLay)
			o.NonTrivialIf(cap(g.slice) > len(g.slice) || c.MsgLay.Pre > 0)
			switch c.Call {
			case "E.Decode":
				_ = p.E.Decode(g.slice)
			case "E.DecodeCompressed":
				_ = p.E.DecodeCompressed(g.slice)
			case "E.DecodeUncompressed":
				_ = p.E.DecodeUncompressed(g.slice)
			case "E.UnmarshalBinary":
				_ = p.E.UnmarshalBinary(g.slice)
			case "S.Decode":
				_ = s.Decode(g.slice)
			case "S.UnmarshalBinary":
				_ = s.UnmarshalBinary(g.slice)
			}
			if i, ok := g.intact(); !ok {
				return gen.Fail(c.Call+"/writes-input", "%s wrote to its input buffer at byte %d", c.Call, i)
			}
			// the decoded value does not alias the input: overwriting the input afterwards changes nothing
			var before []byte
			if c.Call[0] == 'E' {
				before = p.E.Encode()
			} else {
				before = s.Encode()
			}
			scribble(g.backing)
			var after []byte
			if c.Call[0] == 'E' {
				after = p.E.Encode()
			} else {
				after = s.Encode()
			}
			if !bytes.Equal(before, after) {
				return gen.Fail(c.Call+"/aliases-input", "overwriting the input after %s changed the receiver", c.Call)
			}
			return nil

		case contains(c15ret, c.Call):
			o.Class("returns-slice")
			o.NonTrivial()
			call := func() []byte {
				switch c.Call {
				case "E.Encode":
					return p.E.Encode()
				case "E.EncodeUncompressed":
					return p.E.EncodeUncompressed()
				case "E.XCoordinate":
					return p.E.XCoordinate()
				case "E.MarshalBinary":
					b, _ := p.E.MarshalBinary()
					return b
				case "S.Encode":
					return s.Encode()
				case "S.MarshalBinary":
					b, _ := s.MarshalBinary()
					return b
				default:
					return secp256k1.Order()
				}
			}
			r1 := call()
			keep := append([]byte(nil), r1...)
			if c.Call == "Order" && !bytes.Equal(r1, ref.Bytes32(ref.N)) {
				return gen.Fail("Order/value", "Order() = %x", r1)
			}
			r2 := call()
			if overlap(r1, r2) {
				return gen.Fail(c.Call+"/shared-buffer", "two results of %s share memory", c.Call)
			}
			scribble(r1)
			if !bytes.Equal(r2, keep) {
				return gen.Fail(c.Call+"/shared-buffer", "writing to one result of %s changed another result", c.Call)
			}
			scribble(r2)
			if r3 := call(); !bytes.Equal(r3, keep) {
				return gen.Fail(c.Call+"/result-aliases-state", "writing to the result of %s changed a later result: %x, before %x", c.Call, r3, keep)
			}
			return nil

		default:
			o.Class("pointer-arg")
			o.NonTrivialIf(len(c.Q.Steps) > 0 || c.T.Mont)
			switch c.Call {
			case "E.Add":
				p.E.Add(q.E)
			case "E.Subtract":
				p.E.Subtract(q.E)
			case "E.Set":
				p.E.Set(q.E)
				// independent storage: changing the receiver afterwards leaves the argument alone
				p.E.Double().Add(secp256k1.Base())
			case "E.Equal":
				p.E.Equal(q.E)
			case "E.Multiply":
				p.E.Multiply(t)
			case "S.Add":
				s.Add(t)
			case "S.Subtract":
				s.Subtract(t)
			case "S.Multiply":
				s.Multiply(t)
			case "S.Set":
				s.Set(t)
				s.Add(secp256k1.NewScalar().One())
			case "S.Equal":
				s.Equal(t)
			case "S.LessOrEqual":
				s.LessOrEqual(t)
			case "S.Pow":
				s.Pow(t)
			case "S.CSelect":
				u := c.S.Build()
				u0 := u.S
				if err := s.CSelect(c.Cond, u, t); err != nil {
					return gen.Fail("S.CSelect/error", "%v", err)
				}
				if u.S != u0 {
					return gen.Fail("S.CSelect/mutates-scalar-argument", "first operand changed")
				}
			default:
				panic("call " + c.Call)
			}
			return argsIntact()
		}
	},
})

// rawMemory is a copy of the bytes of the object p points to (all fields, exported or not).
func rawMemory[T any](p *T) []byte {
	return append([]byte(nil), unsafe.Slice((*byte)(unsafe.Pointer(p)), unsafe.Sizeof(*p))...)
}

func contains(l []string, s string) bool {
	for _, x := range l {
		if x == s {
			return true
		}
	}
	return false
}

func TestC15Memory(t *testing.T) { c15.Execute(t) }
