package props

import (
	"encoding/hex"
	"math/big"
	"strings"
	"testing"

	"github.com/bytemare/secp256k1"
	"github.com/bytemare/secp256k1/verifharness/gen"
	"github.com/bytemare/secp256k1/verifharness/ref"
	"pgregory.net/rapid"
)

// C13: Equal / IsZero / IsOne / LessOrEqual follow integer semantics; CSelect selects on any non-zero word.

type caseC13cmp struct {
	S   SV     `json:"s"`
	T   SV     `json:"t"`
	Rel string `json:"rel"`
}

// pairGen draws scalar pairs by relation class.
func pairGen(t *rapid.T) caseC13cmp {
	rel := rapid.SampledFrom([]string{"equal", "adjacent", "canon-limb", "mont-limb", "random", "equal-other-domain", "canon-words", "canon-words", "equal-computed", "equal-computed"}).Draw(t, "rel")
	s := SVGen().Draw(t, "s")
	c := caseC13cmp{S: s, Rel: rel}
	switch rel {
	case "equal":
		c.T = s
	case "equal-other-domain":
		// same value, expressed in the other domain
		v := s.Value()
		if s.Mont {
			c.T = SV{Hex: gen.H(v)}
		} else {
			m := new(big.Int).Mod(new(big.Int).Mul(v, rN), ref.N)
			c.T = SV{Hex: gen.H(m), Mont: true}
		}
	case "adjacent":
		v := s.Value()
		d := int64(rapid.SampledFrom([]int{-1, 1}).Draw(t, "d"))
		v.Mod(v.Add(v, big.NewInt(d)), ref.N)
		c.T = SV{Hex: gen.H(v)}
	case "equal-computed":
		// the same value, once plain and once as the result of an arithmetic operation of the package
		v := s.Value()
		c.S = SV{Hex: gen.H(v)}
		c.T = SV{Hex: gen.H(v), Hist: ProvBase + gen.Pick(t, "prov", NumProv)}
		if rapid.Bool().Draw(t, "swapST") {
			c.S, c.T = c.T, c.S
		}
	case "canon-words":
		// t agrees with s in some words and differs in several others (either direction)
		wb := uint(rapid.SampledFrom([]int{64, 32}).Draw(t, "wb"))
		v := gen.PerturbWords(t, s.Value(), wb)
		if v.Cmp(ref.N) >= 0 {
			v.Mod(v, ref.N)
		}
		c.T = SV{Hex: gen.H(v)}
	case "canon-limb", "mont-limb":
		var base *big.Int
		if rel == "canon-limb" {
			base = s.Value()
		} else {
			base = gen.B(s.Hex)
			if !s.Mont {
				base = new(big.Int).Mod(new(big.Int).Mul(base, rN), ref.N)
			}
		}
		l := gen.ToLimbs(base)
		i := rapid.IntRange(0, 3).Draw(t, "limb")
		switch rapid.IntRange(0, 3).Draw(t, "how") {
		case 0:
			l[i]++
		case 1:
			l[i]--
		case 2:
			l[i] ^= 1 << uint(rapid.IntRange(0, 63).Draw(t, "bit"))
		default:
			l[i] = gen.Limb().Draw(t, "nl")
		}
		v := gen.FromLimbs(l)
		if v.Cmp(ref.N) >= 0 {
			v.Mod(v, ref.N)
		}
		c.T = SV{Hex: gen.H(v), Mont: rel == "mont-limb"}
		if rel == "mont-limb" && !s.Mont {
			c.S = SV{Hex: gen.H(base), Mont: true}
		}
	default:
		c.T = SVGen().Draw(t, "t")
	}
	return c
}

func b2i(b bool) int {
	if b {
		return 1
	}
	return 0
}

var c13cmp = gen.Register(&gen.Check[caseC13cmp]{
	Name: "C13/compare",
	Gen:  pairGen,
	Fixed: func() []caseC13cmp {
		h := func(v *big.Int) SV { return SV{Hex: gen.H(v)} }
		nm1 := new(big.Int).Sub(ref.N, big.NewInt(1))
		two255 := new(big.Int).Lsh(big.NewInt(1), 255)
		vals := []*big.Int{big.NewInt(0), big.NewInt(1), big.NewInt(2), big.NewInt(3), big.NewInt(5), two255, nm1, new(big.Int).Lsh(big.NewInt(1), 64)}
		var out []caseC13cmp
		// exhaustive: all ordered pairs of the 256 values whose limbs are taken from {0, 1, 2^63, 2^64-1} (reduced mod n),
		// in the canonical domain and as Montgomery limb patterns
		pats := gen.WordProducts(new(big.Int), 64, gen.Patterns4)
		for _, a := range pats {
			for _, b := range pats {
				ra, rb := new(big.Int).Mod(a, ref.N), new(big.Int).Mod(b, ref.N)
				out = append(out, caseC13cmp{S: h(ra), T: h(rb), Rel: "pattern-product"},
					caseC13cmp{S: SV{Hex: gen.H(ra), Mont: true}, T: SV{Hex: gen.H(rb), Mont: true}, Rel: "pattern-product"})
			}
		}
		for _, a := range vals {
			for _, b := range vals {
				out = append(out, caseC13cmp{S: h(a), T: h(b), Rel: "fixed"})
			}
		}
		// values aimed at the constants found in the sources of the tree under test, against themselves and their neighbours
		for _, v := range gen.DictFixed(ref.N, gen.DictStride()) {
			up := new(big.Int).Mod(new(big.Int).Add(v, big.NewInt(1)), ref.N)
			out = append(out, caseC13cmp{S: h(v), T: h(up), Rel: "dictionary"}, caseC13cmp{S: h(up), T: h(v), Rel: "dictionary"},
				caseC13cmp{S: SV{Hex: gen.H(v), Mont: true}, T: h(new(big.Int).Rsh(ref.N, 2)), Rel: "dictionary"})
		}
		return out
	},
	Required: []string{"rel:equal-computed", "rel:canon-words", "rel:equal", "rel:adjacent", "rel:canon-limb", "rel:mont-limb", "rel:random", "s<t", "s>t"},
	Run: func(c caseC13cmp, o *gen.Obs) error {
		hostileCaller()
		vs, vt := c.S.Value(), c.T.Value()
		s, t := c.S.Build(), c.T.Build()
		cmp := vs.Cmp(vt)
		o.Class("rel:" + c.Rel)
		o.ClassIf(cmp < 0, "s<t")
		o.ClassIf(cmp > 0, "s>t")
		o.NonTrivialIf(cmp != 0 || c.Rel == "equal-computed" || c.Rel == "equal-other-domain")
		s0, t0 := s.S, t.S
		if got := s.Equal(t); got != b2i(cmp == 0) {
			return gen.Fail("Equal", "Equal(%x, %x) = %d", vs, vt, got)
		}
		if got := t.Equal(s); got != b2i(cmp == 0) {
			return gen.Fail("Equal/symmetry", "Equal(%x, %x) = %d", vt, vs, got)
		}
		if got := s.LessOrEqual(t); got != uint64(b2i(cmp <= 0)) {
			return gen.Fail("LessOrEqual", "LessOrEqual(%x, %x) = %d, want %d", vs, vt, got, b2i(cmp <= 0))
		}
		if got := t.LessOrEqual(s); got != uint64(b2i(cmp >= 0)) {
			return gen.Fail("LessOrEqual", "LessOrEqual(%x, %x) = %d, want %d", vt, vs, got, b2i(cmp >= 0))
		}
		if got := s.LessOrEqual(s); got != 1 {
			return gen.Fail("LessOrEqual/reflexive", "LessOrEqual(s, s) = %d for s=%x", got, vs)
		}
		if got := s.IsZero(); got != (vs.Sign() == 0) {
			return gen.Fail("IsZero", "IsZero(%x) = %v", vs, got)
		}
		if got := s.IsOne(); got != (vs.Cmp(big.NewInt(1)) == 0) {
			return gen.Fail("IsOne", "IsOne(%x) = %v", vs, got)
		}
		if s.S != s0 || t.S != t0 {
			return gen.Fail("compare/mutates", "a comparison changed an operand")
		}
		return nil
	},
})

func TestC13Compare(t *testing.T) { c13cmp.Execute(t) }

type caseC13sel struct {
	Cond  uint64 `json:"cond"`
	U     SV     `json:"u"`
	V     SV     `json:"v"`
	Prior SV     `json:"prior"`
	NilU  bool   `json:"nil_u,omitempty"`
	NilV  bool   `json:"nil_v,omitempty"`
	Alias int    `json:"alias,omitempty"` // 0 none, 1 receiver is u, 2 receiver is v, 3 u and v are the same object, 4 all three are
}

var condWords = []uint64{0, 1, 2, 3, 4, 0xff, 1 << 31, 1 << 32, 1 << 63, ^uint64(0), ^uint64(0) - 1, 0x5555555555555555, 0xaaaaaaaaaaaaaaaa}

var c13sel = gen.Register(&gen.Check[caseC13sel]{
	Name:   "C13/cselect",
	Weight: 0.5,
	Gen: func(t *rapid.T) caseC13sel {
		c := caseC13sel{U: SVGen().Draw(t, "u"), V: SVGen().Draw(t, "v"), Prior: SVGen().Draw(t, "prior")}
		if rapid.IntRange(0, 2).Draw(t, "condKind") == 0 {
			c.Cond = gen.U64(t, "cond")
		} else {
			c.Cond = rapid.SampledFrom(condWords).Draw(t, "condPat")
		}
		switch rapid.IntRange(0, 15).Draw(t, "special") {
		case 0:
			c.NilU = true
		case 1:
			c.NilV = true
		case 2:
			c.Alias = 1
		case 3:
			c.Alias = 2
		case 4:
			c.Alias = 3
		case 5:
			c.Alias = 4
		case 6: // every subset of the pointer arguments can be nil, not just one at a time
			c.NilU, c.NilV = true, true
		}
		return c
	},
	Fixed: func() []caseC13sel {
		a, b, p := SV{Hex: gen.H(big.NewInt(3))}, SV{Hex: gen.H(big.NewInt(5))}, SV{Hex: gen.H(big.NewInt(9))}
		var out []caseC13sel
		for _, w := range condWords {
			out = append(out, caseC13sel{Cond: w, U: a, V: b, Prior: p})
		}
		for _, w := range []uint64{0, 1, 2, ^uint64(0)} {
			out = append(out, caseC13sel{Cond: w, U: a, V: b, Prior: p, NilU: true}, caseC13sel{Cond: w, U: a, V: b, Prior: p, NilV: true},
				caseC13sel{Cond: w, U: a, V: b, Prior: p, NilU: true, NilV: true})
		}
		return out
	},
	Required: []string{"cond=0", "cond=1", "cond>1", "nil", "nil:both", "alias"},
	Run: func(c caseC13sel, o *gen.Obs) error {
		u, v, r := c.U.Build(), c.V.Build(), c.Prior.Build()
		vu, vv, vp := c.U.Value(), c.V.Value(), c.Prior.Value()
		switch c.Alias {
		case 1:
			r, vp = u, vu
		case 2:
			r, vp = v, vv
		case 3:
			v, vv = u, vu
		case 4:
			v, vv = u, vu
			r, vp = u, vu
		}
		o.ClassIf(c.Cond == 0, "cond=0")
		o.ClassIf(c.Cond == 1, "cond=1")
		o.ClassIf(c.Cond > 1, "cond>1")
		o.ClassIf(c.NilU || c.NilV, "nil")
		o.ClassIf(c.NilU && c.NilV, "nil:both")
		o.ClassIf(c.Alias != 0, "alias")
		o.NonTrivialIf(c.Cond > 1 && vu.Cmp(vv) != 0 && !c.NilU && !c.NilV)
		au, av := u, v
		if c.NilU {
			au = nil
		}
		if c.NilV {
			av = nil
		}
		u0, v0 := u.S, v.S
		err := r.CSelect(c.Cond, au, av)
		if c.NilU || c.NilV {
			if err == nil {
				return gen.Fail("CSelect/nil-no-error", "nil operand accepted")
			}
			return checkScalar("CSelect/nil-changed-receiver", r, vp)
		}
		if err != nil {
			return gen.Fail("CSelect/error", "unexpected error %v", err)
		}
		want := vu
		if c.Cond != 0 {
			want = vv
		}
		if e := checkScalar("CSelect", r, want); e != nil {
			return gen.Fail("CSelect", "cond=%#x u=%x v=%x: %v", c.Cond, vu, vv, e)
		}
		if (c.Alias != 1 && c.Alias != 4 && u.S != u0) || (c.Alias == 0 && v.S != v0) {
			return gen.Fail("CSelect/mutates-operand", "an operand changed")
		}
		return nil
	},
})

func TestC13CSelect(t *testing.T) { c13sel.Execute(t) }

// caseC13after: comparisons on a scalar object whose last call FAILED (a rejected decode, a CSelect with a nil operand).
// Nothing is assumed about which value the object then holds (C07 does not say), only that it still is a scalar: the
// integer it encodes to is the one every comparison must see.
type caseC13after struct {
	Prior SV     `json:"prior"`
	Bad   string `json:"bad"`  // hex of the rejected 32-byte (or other) input
	Via   int    `json:"via"`  // 0 Decode, 1 UnmarshalBinary, 2 DecodeHex, 3 CSelect(nil)
	W     SV     `json:"w"`    // an unrelated scalar to compare with
	Cond  uint64 `json:"cond"` // condition word for the CSelect observation
}

var c13after = gen.Register(&gen.Check[caseC13after]{
	Name:   "C13/after-failed-call",
	Weight: 0.25,
	Gen: func(t *rapid.T) caseC13after {
		c := caseC13after{Prior: SVGen().Draw(t, "prior"), W: SVGen().Draw(t, "w"), Via: gen.Pick(t, "via", 4), Cond: rapid.SampledFrom(condWords).Draw(t, "cond")}
		var v *big.Int
		switch gen.Pick(t, "badKind", 4) {
		case 0: // n + small
			v = new(big.Int).Add(ref.N, big.NewInt(int64(rapid.IntRange(0, 3).Draw(t, "d"))))
		case 1: // anything in [n, 2^256)
			span := new(big.Int).Sub(new(big.Int).Lsh(bigOne, 256), ref.N)
			v = new(big.Int).Add(ref.N, gen.Int(span).Draw(t, "off"))
		case 2: // top of the range
			v = new(big.Int).Sub(new(big.Int).Lsh(bigOne, 256), big.NewInt(int64(1+rapid.IntRange(0, 3).Draw(t, "d"))))
		default: // n + the prior value / n + w (the reduced value collides with an existing scalar), when that fits in 256 bits
			v = new(big.Int).Add(ref.N, c.W.Value())
			if v.BitLen() > 256 {
				v = new(big.Int).Add(ref.N, bigOne)
			}
		}
		c.Bad = hex.EncodeToString(ref.Bytes32(v))
		return c
	},
	Fixed: func() []caseC13after {
		var out []caseC13after
		one := SV{Hex: gen.H(bigOne)}
		for via := 0; via < 4; via++ {
			for _, d := range []int64{0, 1, 2} {
				out = append(out, caseC13after{Prior: one, W: one, Via: via, Bad: hex.EncodeToString(ref.Bytes32(new(big.Int).Add(ref.N, big.NewInt(d)))), Cond: 1})
			}
			out = append(out, caseC13after{Prior: one, W: SV{Hex: gen.H(big.NewInt(7))}, Via: via, Bad: strings.Repeat("ff", 32), Cond: 0})
		}
		return out
	},
	Required: []string{"failed:decode", "failed:cselect-nil"},
	Run: func(c caseC13after, o *gen.Obs) error {
		s, w := c.Prior.Build(), c.W.Build()
		vw := c.W.Value()
		bad := gen.HexBytes(c.Bad)
		var err error
		switch c.Via {
		case 0:
			err = s.Decode(bad)
		case 1:
			err = s.UnmarshalBinary(bad)
		case 2:
			err = s.DecodeHex(hex.EncodeToString(bad))
		default:
			err = s.CSelect(c.Cond, nil, w)
		}
		if err == nil {
			return nil // accepted: not the situation this check is about (acceptance is C07's business)
		}
		o.ClassIf(c.Via < 3, "failed:decode")
		o.ClassIf(c.Via == 3, "failed:cselect-nil")
		o.NonTrivial()
		enc := s.Encode()
		if len(enc) != 32 {
			return gen.Fail("after-failed/encode", "Encode returns %d bytes", len(enc))
		}
		v := ref.OS2IP(enc)
		if v.Cmp(ref.N) >= 0 {
			return gen.Fail("after-failed/encode", "after the failed call the scalar encodes to %x, which is not < n", enc)
		}
		tw := SV{Hex: gen.H(v)}.Build() // a fresh scalar holding the value the object shows
		type obs struct {
			name      string
			got, want int
		}
		list := []obs{
			{"Equal(s, fresh(s))", s.Equal(tw), 1}, {"Equal(fresh(s), s)", tw.Equal(s), 1},
			{"IsZero(s)", b2i(s.IsZero()), b2i(v.Sign() == 0)}, {"IsOne(s)", b2i(s.IsOne()), b2i(v.Cmp(bigOne) == 0)},
			{"LessOrEqual(s, fresh(s))", int(s.LessOrEqual(tw)), 1}, {"LessOrEqual(fresh(s), s)", int(tw.LessOrEqual(s)), 1},
			{"Equal(s, w)", s.Equal(w), b2i(v.Cmp(vw) == 0)}, {"Equal(w, s)", w.Equal(s), b2i(v.Cmp(vw) == 0)},
			{"LessOrEqual(s, w)", int(s.LessOrEqual(w)), b2i(v.Cmp(vw) <= 0)}, {"LessOrEqual(w, s)", int(w.LessOrEqual(s)), b2i(vw.Cmp(v) <= 0)},
		}
		for _, ob := range list {
			if ob.got != ob.want {
				return gen.Fail("after-failed/"+strings.SplitN(ob.name, "(", 2)[0], "after a failed call (via %d, input %s) the scalar encodes to %x but %s = %d, want %d",
					c.Via, c.Bad, enc, ob.name, ob.got, ob.want)
			}
		}
		r := secp256k1.NewScalar()
		if err := r.CSelect(c.Cond, w, s); err != nil {
			return gen.Fail("after-failed/CSelect", "unexpected error %v", err)
		}
		want := vw
		if c.Cond != 0 {
			want = v
		}
		if e := checkScalar("after-failed/CSelect", r, want); e != nil {
			return e
		}
		return nil
	},
})

func TestC13AfterFailedCall(t *testing.T) { c13after.Execute(t) }

var _ = secp256k1.NewScalar
