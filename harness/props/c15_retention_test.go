package props

import (
	"bytes"
	"fmt"
	"math/big"
	"testing"

	"github.com/bytemare/secp256k1"
	"github.com/bytemare/secp256k1/verifharness/gen"
	"github.com/bytemare/secp256k1/verifharness/ref"
	"pgregory.net/rapid"
)

// C15/retention: "returned byte slices are fresh" over TIME. A caller keeps thousands of returned encodings (a transcript, a
// batch, a cache of public keys) while it keeps calling. Afterwards, from the oldest to the newest: each kept slice must still
// hold what it held when it was returned, and is then overwritten over its FULL capacity (the caller owns a returned slice,
// spare capacity included: `append(enc, more...)` writes there). A later result that shares memory with an earlier one - a
// recycled arena block, a window whose capacity runs into its neighbours - shows up as a changed slice.

type caseC15ret struct {
	N    int    `json:"n"`    // number of results kept
	Mix  int    `json:"mix"`  // which functions produce the results (0 scalars only, 1 elements only, 2 everything)
	Seed uint64 `json:"seed"` // varies the values
	Hex  bool   `json:"hex,omitempty"`
}

var c15retention = gen.Register(&gen.Check[caseC15ret]{
	Name:   "C15/retention",
	Weight: 0.0005,
	Gen: func(t *rapid.T) caseC15ret {
		c := caseC15ret{Mix: gen.Pick(t, "mix", 3), Seed: gen.U64(t, "seed"), Hex: rapid.Bool().Draw(t, "hex")}
		c.N = 1<<uint(8+gen.Pick(t, "log", 9)) + gen.Pick(t, "delta", 70)
		if c.Mix != 0 && c.N > 9000 {
			c.N = 9000 // element encodings cost a field inversion each
		}
		return c
	},
	Fixed: func() []caseC15ret {
		return []caseC15ret{{N: 70000, Mix: 0, Seed: 1}, {N: 70000, Mix: 0, Seed: 2, Hex: true}, {N: 5000, Mix: 1, Seed: 3}, {N: 9000, Mix: 2, Seed: 4, Hex: true}, {N: 300, Mix: 2, Seed: 5}, {N: 2100, Mix: 0, Seed: 6}}
	},
	Required: []string{"kept>=2049", "kept>=65537"},
	Run: func(c caseC15ret, o *gen.Obs) error {
		o.ClassIf(c.N >= 2049, "kept>=2049")
		o.ClassIf(c.N >= 65537, "kept>=65537")
		o.Class("mix=%d", c.Mix)
		o.NonTrivial()
		type kept struct {
			got  []byte
			want []byte
			what string
		}
		ring := make([]kept, 0, c.N)
		// returned OBJECTS are fresh too: scalars and elements handed out by the package are kept and looked at again at the end
		type keptObj struct {
			s    *secp256k1.Scalar
			e    *secp256k1.Element
			want []byte
			what string
		}
		var objs []keptObj
		retDst := []byte("VERIF-C15-retention-dst")
		s := secp256k1.NewScalar().SetUInt64(c.Seed | 1)
		three := secp256k1.NewScalar().SetUInt64(3)
		e := secp256k1.Base()
		base := secp256k1.Base()
		g := ref.G()
		pv := g
		for i := 0; i < c.N; i++ {
			kind := 0
			switch c.Mix {
			case 1:
				kind = 2 + i%4
			case 2:
				kind = i % 7
			default:
				kind = i % 2
			}
			var k kept
			switch kind {
			case 0:
				s.Multiply(three).Add(three)
				k = kept{got: s.Encode(), what: "Scalar.Encode"}
			case 1:
				s.Add(three)
				b, err := s.MarshalBinary()
				if err != nil {
					return gen.Fail("retention/marshal", "MarshalBinary: %v", err)
				}
				k = kept{got: b, what: "Scalar.MarshalBinary"}
			case 2:
				e.Add(base)
				pv = ref.Add(pv, g)
				k = kept{got: e.Encode(), want: ref.Compress(pv), what: "Element.Encode"}
			case 3:
				e.Double()
				pv = ref.Double(pv)
				k = kept{got: e.EncodeUncompressed(), what: "Element.EncodeUncompressed"}
				if !pv.Inf {
					k.want = ref.Uncompressed(pv)
				}
			case 4:
				k = kept{got: e.XCoordinate(), what: "Element.XCoordinate"}
			case 5:
				b, err := e.MarshalBinary()
				if err != nil {
					return gen.Fail("retention/marshal", "MarshalBinary: %v", err)
				}
				k = kept{got: b, want: ref.Compress(pv), what: "Element.MarshalBinary"}
			default:
				k = kept{got: secp256k1.Order(), want: ref.Bytes32(ref.N), what: "Order"}
			}
			if i%3 == 0 && len(objs) < 20000 {
				msg := []byte{byte(i), byte(i >> 8), byte(i >> 16), byte(c.Seed)}
				switch (i / 3) % 6 {
				case 0, 1, 2:
					objs = append(objs, keptObj{s: secp256k1.HashToScalar(msg, retDst), want: ref.Bytes32(ref.HashToScalar(msg, retDst)), what: "HashToScalar"})
				case 3:
					objs = append(objs, keptObj{s: s.Copy(), want: s.Encode(), what: "Scalar.Copy"})
				case 4:
					if i%60 == 12 { // (a hash to the curve costs a hundred microseconds)
						p, _ := ref.HashToCurve(msg, retDst)
						objs = append(objs, keptObj{e: secp256k1.HashToGroup(msg, retDst), want: ref.Compress(p), what: "HashToGroup"})
					}
				default:
					objs = append(objs, keptObj{e: e.Copy(), want: e.Encode(), what: "Element.Copy"}, keptObj{s: secp256k1.NewScalar(), want: make([]byte, 32), what: "NewScalar"})
				}
			}
			if c.Hex && i%5 == 0 {
				_ = s.Hex() // other functions that encode internally take part in whatever is shared
				_ = e.Hex()
			}
			if k.want == nil {
				k.want = append([]byte(nil), k.got...)
			} else if !bytes.Equal(k.got, k.want) {
				return gen.Fail("retention/value", "result %d (%s) = %x, model %x", i, k.what, k.got, k.want)
			}
			ring = append(ring, k)
		}
		for i, k := range ring {
			if !bytes.Equal(k.got, k.want) {
				return gen.Fail("retention/"+k.what+"-changed-later", "result number %d of %d kept results (%s) was %x when it was returned and is %x now: a later call wrote into it (or the caller's writes into the spare capacity of an earlier result reached it)", i, len(ring), k.what, k.want, k.got)
			}
			full := k.got[:cap(k.got)]
			for j := range full {
				full[j] = gen.Canary(j + i)
			}
		}
		for i, k := range objs {
			var got []byte
			if k.s != nil {
				got = k.s.Encode()
			} else {
				got = k.e.Encode()
			}
			if !bytes.Equal(got, k.want) {
				return gen.Fail("retention/"+k.what+"-object-changed-later", "object number %d of %d kept objects (returned by %s) held %x when it was returned and holds %x now", i, len(objs), k.what, k.want, got)
			}
		}
		for _, k := range objs { // the caller owns them: it changes every one, the others must not move
			if k.s != nil {
				k.s.Add(three)
			} else {
				k.e.Double()
			}
		}
		// and the library itself must not care about what the caller did to the slices it gave away
		if got := secp256k1.Order(); !bytes.Equal(got, ref.Bytes32(ref.N)) {
			return gen.Fail("retention/order", "Order() = %x after the caller overwrote earlier results", got)
		}
		if got, want := secp256k1.NewScalar().SetUInt64(5).Encode(), ref.Bytes32(bigFive); !bytes.Equal(got, want) {
			return gen.Fail("retention/encode-after", "Encode(5) = %x after the caller overwrote earlier results", got)
		}
		return nil
	},
})

var bigFive = big.NewInt(5)

func TestC15Retention(t *testing.T) { c15retention.Execute(t) }

var _ = fmt.Sprint
