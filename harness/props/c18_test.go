package props

import (
	"bytes"
	"crypto/rand"
	"encoding/hex"
	"errors"
	"io"
	"io/fs"
	"math/big"
	"os"
	"runtime"
	"syscall"
	"testing"
	"time"

	"github.com/bytemare/secp256k1"
	"github.com/bytemare/secp256k1/verifharness/gen"
	"github.com/bytemare/secp256k1/verifharness/ref"
	"pgregory.net/rapid"
)

// C18: Random is non-zero, canonical and correct for every entropy stream, and panics on a failing source.

type caseC18 struct {
	Blocks []string `json:"blocks"`          // 32-byte blocks, hex; the stream is their concatenation plus Tail
	Tail   string   `json:"tail"`            // extra bytes after the blocks (read-ahead tolerance)
	Chunks []int    `json:"chunks"`          // sizes returned by successive Read calls (cycled), each 1..32
	Fault  int      `json:"fault"`           // byte offset at which the source starts failing; -1 = never
	Style  string   `json:"style,omitempty"` // err | eof | partial (bytes and error in the same Read)
	Prior  SV       `json:"prior"`
	// Reentrant: the entropy source is itself built on the library (a DRBG that hashes with HashToScalar, compares and
	// multiplies inside Read): Random must not hold anything across the Read that those calls need.
	Reentrant bool `json:"reentrant,omitempty"`
	// Delegate: Read hands the buffer to ANOTHER goroutine to fill (an entropy daemon client) and garbage collections run while
	// the caller is parked inside Read; the goroutine that calls Random has used a deep stack before (so the collector may move
	// its stack meanwhile). A legal io.Reader: the buffer is not kept after Read returns.
	Delegate bool `json:"delegate,omitempty"`
	// SlowMs: the source blocks for this long before it delivers its first byte (a starved kernel pool, an HSM); fixed cases
	// only: 300 ms, and 35 s in the thorough tier.
	SlowMs int `json:"slow_ms,omitempty"`
	// StallAt / StallReads: when the stream position reaches StallAt the source answers StallReads consecutive Read calls with
	// (0, nil) - "nothing yet", which the io.Reader contract allows - and then goes on. StallReads = 0: no stall.
	StallAt    int `json:"stall_at,omitempty"`
	StallReads int `json:"stall_reads,omitempty"`
}

type scriptedReader struct {
	stallAt, stallReads, stalled int
	stream                       []byte
	pos                          int
	chunks                       []int
	ci                           int
	fault                        int
	style                        string
	reads                        int
	reent                        bool
	deleg                        bool
	slowMs                       int
}

var errEntropy = errors.New("scripted entropy failure")

type timeoutErr struct{}

func (timeoutErr) Error() string   { return "scripted timeout" }
func (timeoutErr) Timeout() bool   { return true }
func (timeoutErr) Temporary() bool { return true }

// faultStyles are the error identities a failing source may present; whatever the identity, a block that was not
// delivered completely must never be used.
var faultStyles = []string{"panic", "err", "eof", "partial", "unexpected-eof", "eintr", "eagain", "wrapped-eintr", "path-eintr", "timeout", "closed"}

func faultError(style string) error {
	switch style {
	case "eof":
		return io.EOF
	case "unexpected-eof":
		return io.ErrUnexpectedEOF
	case "eintr":
		return syscall.EINTR
	case "eagain":
		return syscall.EAGAIN
	case "wrapped-eintr":
		return os.NewSyscallError("getrandom", syscall.EINTR)
	case "path-eintr":
		return &fs.PathError{Op: "read", Path: "/dev/urandom", Err: syscall.EINTR}
	case "timeout":
		return timeoutErr{}
	case "closed":
		return os.ErrClosed
	}
	return errEntropy
}

func (r *scriptedReader) Read(p []byte) (int, error) {
	if r.deleg {
		type res struct {
			n   int
			err error
			pnc any
		}
		done := make(chan res)
		first := r.reads == 0
		go func() {
			var x res
			inner := *r
			inner.deleg = false
			defer func() {
				x.pnc = recover()
				inner.deleg = true
				*r = inner
				done <- x
			}()
			runtime.Gosched()
			x.n, x.err = inner.Read(p)
		}()
		if first {
			runtime.GC() // the caller is parked in Read while the collector runs (and may shrink and move its stack)
			runtime.GC()
		}
		x := <-done
		if x.pnc != nil {
			panic(x.pnc)
		}
		return x.n, x.err
	}
	r.reads++
	if r.slowMs > 0 && r.reads == 1 {
		time.Sleep(time.Duration(r.slowMs) * time.Millisecond)
	}
	if r.reent {
		// library calls from inside the entropy source (results are not used: the stream stays the scripted one)
		h := secp256k1.HashToScalar([]byte{byte(r.reads)}, []byte("VERIF-C18-reentrant-source"))
		_ = h.Encode()
		_ = h.LessOrEqual(secp256k1.NewScalar().MinusOne())
		if r.reads%4 == 1 {
			secp256k1.Base().Multiply(h)
			_ = secp256k1.HashToGroup([]byte("r"), []byte("VERIF-C18-reentrant-source")).Encode()
		}
	}
	if len(p) == 0 {
		return 0, nil
	}
	ferr := faultError(r.style)
	limit := len(r.stream)
	if r.fault >= 0 && r.fault < limit {
		limit = r.fault
	}
	if r.fault < 0 && r.pos >= len(r.stream) {
		// a source that never fails keeps delivering (deterministic filler), so read-ahead is harmless
		n := r.chunks[r.ci%len(r.chunks)]
		r.ci++
		if n > len(p) {
			n = len(p)
		}
		for i := 0; i < n; i++ {
			p[i] = 0x5a
		}
		r.pos += n
		return n, nil
	}
	if r.pos >= limit {
		if r.style == "panic" {
			panic("scripted entropy source panics") // a caller-provided reader may panic; it unwinds through Random
		}
		return 0, ferr
	}
	if r.stallReads > 0 && r.pos == r.stallAt && r.stalled < r.stallReads {
		r.stalled++
		return 0, nil
	}
	n := r.chunks[r.ci%len(r.chunks)]
	r.ci++
	if n > len(p) {
		n = len(p)
	}
	if n > limit-r.pos {
		n = limit - r.pos
	}
	if r.stallReads > 0 && r.pos < r.stallAt && r.pos+n > r.stallAt {
		n = r.stallAt - r.pos
	}
	copy(p, r.stream[r.pos:r.pos+n])
	r.pos += n
	if r.style == "partial" && r.fault >= 0 && r.pos == limit {
		return n, ferr
	}
	return n, nil
}

func entropyBlock(t *rapid.T) *big.Int {
	two256 := new(big.Int).Lsh(bigOne, 256)
	switch gen.Pick(t, "blockKind", 14) {
	case 10: // n with several 64-bit words perturbed at once (equal / all-ones / zero / +-1 words next to each other: borrow chains)
		return gen.PerturbWords(t, ref.N, 64)
	case 11: // the same at 32-bit granularity
		return gen.PerturbWords(t, ref.N, 32)
	case 12: // every limb from {the limb of n, +-1, 0, all ones, random}
		l := gen.ToLimbs(ref.N)
		for i := range l {
			switch gen.Pick(t, "bl", 6) {
			case 1:
				l[i]++
			case 2:
				l[i]--
			case 3:
				l[i] = 0
			case 4:
				l[i] = ^uint64(0)
			case 5:
				l[i] = gen.U64(t, "blr")
			}
		}
		return gen.FromLimbs(l)
	case 13: // boundary-biased values (incl. the classes aimed at the constants of the tree under test), possibly + n
		v := gen.Int(ref.N).Draw(t, "bv")
		if w := new(big.Int).Add(v, ref.N); rapid.Bool().Draw(t, "plusN") && w.BitLen() <= 256 {
			return w
		}
		return v
	case 0:
		return new(big.Int)
	case 1:
		return new(big.Int).Set(ref.N)
	case 2:
		return new(big.Int).Add(ref.N, big.NewInt(int64(rapid.IntRange(1, 3).Draw(t, "d"))))
	case 3:
		v := new(big.Int).Add(ref.N, new(big.Int).Lsh(bigOne, uint(rapid.IntRange(0, 127).Draw(t, "k"))))
		return v
	case 4:
		return new(big.Int).Sub(two256, big.NewInt(int64(rapid.IntRange(1, 3).Draw(t, "d"))))
	case 5:
		return new(big.Int).Sub(ref.N, big.NewInt(int64(rapid.IntRange(1, 3).Draw(t, "d"))))
	case 6:
		return big.NewInt(int64(rapid.IntRange(1, 3).Draw(t, "small")))
	case 7: // between n and 2^256
		v := gen.Uniform256().Draw(t, "r")
		for i := 129; i < 256; i++ {
			v.SetBit(v, i, 1)
		}
		return v
	default:
		return gen.Uniform256().Draw(t, "r")
	}
}

func isGoodBlock(v *big.Int) bool { return new(big.Int).Mod(v, ref.N).Sign() != 0 }

var c18 = gen.Register(&gen.Check[caseC18]{
	Name: "C18/random",
	Gen: func(t *rapid.T) caseC18 {
		c := caseC18{Fault: -1, Prior: SVGen().Draw(t, "prior"), Reentrant: gen.Chance(t, "reentrant", 1, 50), Delegate: gen.Chance(t, "delegate", 1, 1500)}
		// zero or more bad blocks (0 or n), then a good one
		nbad := 0
		if gen.Chance(t, "hasBad", 1, 2) {
			nbad = rapid.IntRange(1, 4).Draw(t, "nbad")
			if gen.Chance(t, "longRun", 1, 40) {
				nbad = rapid.SampledFrom([]int{128, 127, 129, 255, 256, 64, 1000}).Draw(t, "longBad") // a bounded retry loop gives up somewhere
			}
		}
		for i := 0; i < nbad; i++ {
			if rapid.Bool().Draw(t, "zeroOrN") {
				c.Blocks = append(c.Blocks, gen.H(new(big.Int)))
			} else {
				c.Blocks = append(c.Blocks, gen.H(ref.N))
			}
		}
		good := entropyBlock(t)
		if !isGoodBlock(good) {
			good = big.NewInt(1)
		}
		c.Blocks = append(c.Blocks, gen.H(good))
		c.Tail = hex.EncodeToString(gen.Bytes(64, 96).Draw(t, "tail"))
		nchunks := rapid.IntRange(1, 6).Draw(t, "nchunks")
		for i := 0; i < nchunks; i++ {
			c.Chunks = append(c.Chunks, rapid.SampledFrom([]int{32, 1, 31, 7, 16, 33, 64}).Draw(t, "chunk"))
		}
		goodEnd := 32 * len(c.Blocks)
		if gen.Chance(t, "stall", 1, 4) {
			// the source has nothing for a while: a run of zero-length successful reads in the middle of the stream
			c.StallAt = rapid.IntRange(1, goodEnd-1).Draw(t, "stallAt")
			c.StallReads = rapid.SampledFrom([]int{1, 2, 99, 100, 101, 150, 1000, 15, 16, 17, 255, 256, 257, 4096}).Draw(t, "stallReads")
			if ws := gen.Dict().Words; len(ws) > 0 && gen.Chance(t, "stallDict", 1, 3) {
				if w := ws[gen.Pick(t, "stallWord", len(ws))]; w > 0 && w < 5000 {
					c.StallReads = int(w) + rapid.IntRange(-1, 1).Draw(t, "stallPm")
				}
			}
		}
		switch gen.Pick(t, "faultKind", 4) {
		case 1: // strictly before the first good block is complete
			c.Fault = rapid.IntRange(0, goodEnd-1).Draw(t, "fault")
		case 2: // far enough after it that read-ahead cannot matter
			c.Fault = goodEnd + 64
		}
		if c.Fault >= 0 {
			c.Style = faultStyles[gen.Pick(t, "style", len(faultStyles))]
			if c.Style == "partial" && c.Fault%32 == 0 && c.Fault < goodEnd {
				c.Fault++ // bytes delivered together with the error never complete a block
				if c.Fault >= goodEnd {
					c.Fault = goodEnd - 1
				}
			}
		}
		return c
	},
	Fixed: func() []caseC18 {
		p := SV{Hex: gen.H(big.NewInt(5))}
		h := func(v *big.Int) string { return gen.H(v) }
		tail := hex.EncodeToString(bytes.Repeat([]byte{0x11}, 64))
		np1 := new(big.Int).Add(ref.N, bigOne)
		max := new(big.Int).Sub(new(big.Int).Lsh(bigOne, 256), bigOne)
		slow := 300
		if os.Getenv("VERIF_TIER") == "thorough" {
			slow = 35000
		}
		return []caseC18{
			{Blocks: []string{h(big.NewInt(7))}, Tail: tail, Chunks: []int{32}, Fault: -1, Prior: p, SlowMs: slow},
			{Blocks: []string{h(ref.N), h(big.NewInt(7))}, Tail: tail, Chunks: []int{16}, Fault: 40, Style: "err", Prior: p, SlowMs: slow},
			{Blocks: []string{h(big.NewInt(7))}, Tail: tail, Chunks: []int{32}, Fault: -1, Prior: p},
			{Blocks: []string{h(np1)}, Tail: tail, Chunks: []int{32}, Fault: -1, Prior: p},
			{Blocks: []string{h(max)}, Tail: tail, Chunks: []int{1}, Fault: -1, Prior: p},
			{Blocks: []string{h(new(big.Int)), h(big.NewInt(9))}, Tail: tail, Chunks: []int{32}, Fault: -1, Prior: p},
			{Blocks: []string{h(ref.N), h(new(big.Int)), h(ref.N), h(np1)}, Tail: tail, Chunks: []int{7, 31}, Fault: -1, Prior: p},
			{Blocks: []string{h(big.NewInt(7))}, Tail: tail, Chunks: []int{32}, Fault: 0, Style: "err", Prior: p},
			{Blocks: []string{h(big.NewInt(7))}, Tail: tail, Chunks: []int{16}, Fault: 31, Style: "eof", Prior: p},
			{Blocks: []string{h(ref.N), h(big.NewInt(7))}, Tail: tail, Chunks: []int{32}, Fault: 32, Style: "err", Prior: p},
			{Blocks: []string{h(ref.N), h(big.NewInt(7))}, Tail: tail, Chunks: []int{32}, Fault: 40, Style: "partial", Prior: p},
			{Blocks: []string{h(max)}, Tail: tail, Chunks: []int{5}, Fault: 1, Style: "eintr", Prior: p},
			{Blocks: []string{h(max)}, Tail: tail, Chunks: []int{16}, Fault: 16, Style: "wrapped-eintr", Prior: p},
			{Blocks: []string{h(ref.N), h(max)}, Tail: tail, Chunks: []int{32}, Fault: 33, Style: "path-eintr", Prior: p},
			{Blocks: []string{h(max)}, Tail: tail, Chunks: []int{7}, Fault: 31, Style: "eagain", Prior: p},
			{Blocks: []string{h(max)}, Tail: tail, Chunks: []int{7}, Fault: 14, Style: "timeout", Prior: p},
			{Blocks: []string{h(max)}, Tail: tail, Chunks: []int{7}, Fault: 0, Style: "eintr", Prior: p},
			{Blocks: append(repeatBlocks(h(ref.N), h(new(big.Int)), 300), h(big.NewInt(7))), Tail: tail, Chunks: []int{32}, Fault: -1, Prior: p},
			{Blocks: []string{h(max)}, Tail: tail, Chunks: []int{32}, Fault: -1, Prior: p, StallAt: 5, StallReads: 100},
			{Blocks: []string{h(max)}, Tail: tail, Chunks: []int{7}, Fault: -1, Prior: p, StallAt: 31, StallReads: 101},
			{Blocks: []string{h(ref.N), h(max)}, Tail: tail, Chunks: []int{32}, Fault: -1, Prior: p, StallAt: 37, StallReads: 1000},
			{Blocks: []string{h(max)}, Tail: tail, Chunks: []int{16}, Fault: -1, Prior: p, StallAt: 16, StallReads: 4096},
		}
	},
	Required: []string{"block>=n", "retry:zero", "retry:n", "fault:before", "fault:after", "chunked", "reentrant-source", "recovered-then-healthy-source", "source-filled-by-another-goroutine", "slow-source"},
	Run: func(c caseC18, o *gen.Obs) error {
		hostileCaller()
		var stream []byte
		var want *big.Int
		goodEnd := 0
		for i, b := range c.Blocks {
			v := gen.B(b)
			stream = append(stream, ref.Bytes32(v)...)
			if want == nil && isGoodBlock(v) {
				want = new(big.Int).Mod(v, ref.N)
				goodEnd = 32 * (i + 1)
				o.ClassIf(v.Cmp(ref.N) >= 0, "block>=n")
			} else if want == nil {
				o.ClassIf(v.Sign() == 0, "retry:zero")
				o.ClassIf(v.Sign() != 0, "retry:n")
			}
		}
		if want == nil {
			panic("harness: script without a good block")
		}
		stream = append(stream, gen.HexBytes(c.Tail)...)
		expectPanic := c.Fault >= 0 && c.Fault < goodEnd
		if c.Fault >= goodEnd && c.Fault < goodEnd+64 {
			panic("harness: ambiguous fault position")
		}
		o.ClassIf(expectPanic, "fault:before")
		o.ClassIf(c.Fault >= 0, "fault-style:"+c.Style)
		o.ClassIf(c.Fault >= goodEnd, "fault:after")
		chunked := false
		for _, ch := range c.Chunks {
			chunked = chunked || ch < 32
		}
		o.ClassIf(chunked, "chunked")
		o.ClassIf(c.StallReads > 0, "stalled-source")
		o.ClassIf(c.StallReads >= 100, "stalled-source>=100-reads")
		o.ClassIf(len(c.Blocks) > 64, "long-rejected-run")
		o.NonTrivialIf(len(c.Blocks) > 1 || c.Fault >= 0 || gen.B(c.Blocks[0]).Cmp(ref.N) >= 0)

		rd := &scriptedReader{stream: stream, chunks: c.Chunks, fault: c.Fault, style: c.Style, reent: c.Reentrant, deleg: c.Delegate, slowMs: c.SlowMs, stallAt: c.StallAt, stallReads: c.StallReads}
		o.ClassIf(c.SlowMs > 0, "slow-source")
		o.ClassIf(c.Reentrant, "reentrant-source")
		o.ClassIf(c.Delegate, "source-filled-by-another-goroutine")
		s := c.Prior.Build()
		saved := rand.Reader
		rand.Reader = rd
		var (
			pnc any
			ret *secp256k1.Scalar
		)
		func() {
			defer func() {
				rand.Reader = saved
				pnc = recover()
			}()
			if c.Delegate {
				// on a goroutine of its own, whose stack grew before and is almost unused now
				fin := make(chan any, 1)
				go func() {
					defer func() { fin <- recover() }()
					growStack(40)
					ret = s.Random()
				}()
				if p := <-fin; p != nil {
					panic(p)
				}
				return
			}
			ret = s.Random()
		}()
		if pnc != nil {
			// "a failing source causes a panic rather than a weak value": the caller that recovers must not find one in the receiver
			// either - not zero, and not a scalar made of the incomplete block. (That the receiver keeps its old value is not
			// demanded; any value that does not come out of the failed draw is fine.)
			if pv := c.Prior.Value(); pv.Sign() != 0 && s.IsZero() {
				return gen.Fail("Random/weak-value-after-panic", "Random panicked (%v) and left the zero scalar in the receiver, which held %x", pnc, pv)
			}
			if c.Fault > 0 && c.Fault < len(stream) {
				part := make([]byte, 32)
				start := c.Fault / 32 * 32
				copy(part, stream[start:c.Fault])
				pv := new(big.Int).Mod(new(big.Int).SetBytes(part), ref.N)
				if pv.Sign() != 0 && pv.Cmp(c.Prior.Value()) != 0 && bytes.Equal(s.Encode(), ref.Bytes32(pv)) {
					return gen.Fail("Random/weak-value-after-panic", "Random panicked (%v) and left the incomplete block %x (zero-padded) in the receiver", pnc, part)
				}
			}
			// a failing (or panicking) source made Random panic and the caller recovered: the package must be as usable as
			// before - the next call, with a healthy source, returns the first acceptable block it is given
			o.Class("recovered-then-healthy-source")
			if err := randomAfterRecovery(c); err != nil {
				return err
			}
		}
		if expectPanic {
			if pnc == nil {
				return gen.Fail("Random/no-panic-on-failing-source", "source failed at byte %d (before the first usable block ended at %d) but Random returned %x", c.Fault, goodEnd, s.Encode())
			}
			return nil
		}
		if pnc != nil {
			if c.Fault >= 0 {
				// the source did fail, only later than the block that had to be used: an implementation that reads
				// ahead may legitimately panic here; what it must never do is return a wrong or weak value
				o.Class("fault-after:panicked")
				return nil
			}
			return gen.Fail("Random/panic", "unexpected panic %v although the source never fails (first usable block ends at %d)", pnc, goodEnd)
		}
		if ret != s {
			return gen.Fail("Random/return", "did not return the receiver")
		}
		if s.IsZero() {
			return gen.Fail("Random/zero", "Random returned zero")
		}
		if e := checkScalar("Random", s, want); e != nil {
			return gen.Fail("Random", "blocks %v: %v", c.Blocks, e)
		}
		return nil
	},
})

// randomAfterRecovery calls Random with a healthy source (the good block of the case, preceded by one block to skip) on
// another goroutine with a deadline: after a recovered panic the call must neither block nor return anything else.
func randomAfterRecovery(c caseC18) error {
	good := gen.B(c.Blocks[len(c.Blocks)-1])
	stream := append(make([]byte, 32), ref.Bytes32(good)...)
	rd := &scriptedReader{stream: append(stream, bytes.Repeat([]byte{0x5a}, 256)...), chunks: []int{32}, fault: -1}
	saved := rand.Reader
	rand.Reader = rd
	defer func() { rand.Reader = saved }()
	type res struct {
		enc []byte
		pnc any
	}
	done := make(chan res, 1)
	go func() {
		var r res
		defer func() {
			r.pnc = recover()
			done <- r
		}()
		r.enc = secp256k1.NewScalar().Random().Encode()
	}()
	select {
	case r := <-done:
		want := ref.Bytes32(new(big.Int).Mod(good, ref.N))
		if r.pnc != nil || !bytes.Equal(r.enc, want) {
			return gen.Fail("Random/after-recovered-panic", "after a recovered panic of Random, Random with a healthy source returned %x (panic: %v), want %x", r.enc, r.pnc, want)
		}
	case <-time.After(20 * time.Second):
		return gen.Fail("Random/after-recovered-panic-blocks", "after a recovered panic of Random, Random with a healthy source did not return within 20 s")
	}
	return nil
}

//go:noinline
func growStack(n int) byte {
	var pad [2048]byte
	pad[n] = byte(n)
	if n == 0 {
		return pad[0]
	}
	return growStack(n-1) + pad[n]
}

func TestC18Random(t *testing.T) { c18.Execute(t) }

func repeatBlocks(a, b string, n int) []string {
	out := make([]string, 0, n)
	for i := 0; i < n; i++ {
		if i%2 == 0 {
			out = append(out, a)
		} else {
			out = append(out, b)
		}
	}
	return out
}
