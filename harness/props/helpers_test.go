// Package props holds the checks that need only the public API of the package under test.
package props

import (
	"bytes"
	"errors"
	"math/big"
	"testing"

	"github.com/bytemare/secp256k1"
	"github.com/bytemare/secp256k1/verifharness/gen"
	"github.com/bytemare/secp256k1/verifharness/pt"
	"github.com/bytemare/secp256k1/verifharness/ref"
	"pgregory.net/rapid"
)

var (
	rN    = new(big.Int).Mod(new(big.Int).Lsh(big.NewInt(1), 256), ref.N) // Montgomery R mod n
	rNInv = new(big.Int).ModInverse(rN, ref.N)
)

// SV is a scalar value in a case file: Hex is either the canonical value or, when Mont is set, the
// integer formed by the Montgomery limbs (value = limbs * R^-1 mod n). Both are < n.
type SV struct {
	Hex  string `json:"v"`
	Mont bool   `json:"mont,omitempty"`
	// Hist > 0: the scalar object held another value before and was already used (Bits, Encode, a
	// multiplication) when the value is installed through mutator number Hist (see installers): object
	// history must not matter.
	Hist int `json:"hist,omitempty"`
	// Home > 0: WHERE the object lives: 1 an element (not the first) of a []Scalar, 2 a field (not the first) of a larger struct,
	// 3 an element of an array inside a struct. The value is the same; methods must not care about the address of their receiver
	// (alignment, "start of an allocation", an address-keyed side table).
	Home int `json:"home,omitempty"`
}

type scalarBox struct {
	pad [3]uint64
	S   secp256k1.Scalar
	tag byte
	A   [3]secp256k1.Scalar
}

// rehome moves the value of s (Go value copy) to another kind of memory location.
func rehome(s *secp256k1.Scalar, home int) *secp256k1.Scalar {
	switch home {
	case 1:
		arr := make([]secp256k1.Scalar, 4)
		arr[2] = *s
		return &arr[2]
	case 2:
		b := &scalarBox{}
		b.S = *s
		return &b.S
	case 3:
		b := &scalarBox{}
		b.A[1] = *s
		return &b.A[1]
	}
	return s
}

// Value is the canonical integer the SV denotes.
func (s SV) Value() *big.Int {
	v := gen.B(s.Hex)
	if s.Mont {
		return v.Mod(v.Mul(v, rNInv), ref.N)
	}
	return v
}

// installers set a used scalar object to the value held by src, each through a different mutator.
var installers = []func(dst, src *secp256k1.Scalar){
	func(dst, src *secp256k1.Scalar) { dst.Set(src) },
	func(dst, src *secp256k1.Scalar) { _ = dst.Decode(src.Encode()) },
	func(dst, src *secp256k1.Scalar) { _ = dst.CSelect(1, dst, src) },
	func(dst, src *secp256k1.Scalar) { _ = dst.CSelect(0, src, dst) },
	func(dst, src *secp256k1.Scalar) { dst.Zero().Add(src) },
	func(dst, src *secp256k1.Scalar) { dst.One().Multiply(src) },
	func(dst, src *secp256k1.Scalar) { b, _ := src.MarshalBinary(); _ = dst.UnmarshalBinary(b) },
	func(dst, src *secp256k1.Scalar) { _ = dst.DecodeHex(src.Hex()) },
	func(dst, src *secp256k1.Scalar) { dst.Subtract(dst).Add(src) },
	func(dst, src *secp256k1.Scalar) { _ = dst.CSelect(^uint64(0), dst, src) },
	func(dst, src *secp256k1.Scalar) { copy(dst.S[:], src.S[:]) },
	func(dst, src *secp256k1.Scalar) { *dst = *src }, // Go-level struct assignment
	func(dst, src *secp256k1.Scalar) {
		// the source takes part in operations (which may cache things inside the object), is copied by struct assignment, and
		// is then changed and used again: the copy must keep the old value in every respect
		two := secp256k1.NewScalar().SetUInt64(2)
		_ = src.LessOrEqual(two)
		two.Pow(src)
		_ = src.Bits()
		_ = src.Encode()
		*dst = *src
		src.Pow(secp256k1.NewScalar().SetUInt64(3)) // in-place operations on the original right after the copy
		src.Square()
		src.Add(secp256k1.NewScalar().One()).Pow(secp256k1.NewScalar().SetUInt64(3))
		_ = src.LessOrEqual(two)
		_ = src.Bits()
		secp256k1.NewScalar().SetUInt64(5).Pow(src)
	},
	func(dst, src *secp256k1.Scalar) { z := new(secp256k1.Scalar); z.Add(src); dst.Set(z) }, // through a zero-value scalar
}

// NumInstallers is the number of object-history recipes.
var NumInstallers = len(installers)

// Hist values >= ProvBase select an *arithmetic provenance* instead: the scalar is the result of an operation of the
// package on operands computed by the model (Multiply(a, v/a), Add(a, v-a), Subtract(a, a-v), Square(sqrt v),
// Invert(1/v)), so its stored form is whatever that operation leaves behind.
const (
	ProvBase = 100
	NumProv  = 5
)

func limbScalar(v *big.Int) *secp256k1.Scalar {
	out := secp256k1.NewScalar()
	l := gen.ToLimbs(new(big.Int).Mod(new(big.Int).Mul(v, rN), ref.N))
	copy(out.S[:], l[:])
	return out
}

func provenance(v *big.Int, kind int) *secp256k1.Scalar {
	a := new(big.Int).Mul(v, new(big.Int).SetUint64(0x9E3779B97F4A7C15))
	a.Add(a, big.NewInt(0x1234567)).Mod(a, ref.N)
	if a.Sign() == 0 {
		a.SetInt64(3)
	}
	switch kind % NumProv {
	case 0:
		b := new(big.Int).Mod(new(big.Int).Mul(v, new(big.Int).ModInverse(a, ref.N)), ref.N)
		return limbScalar(a).Multiply(limbScalar(b))
	case 1:
		return limbScalar(a).Add(limbScalar(new(big.Int).Mod(new(big.Int).Sub(v, a), ref.N)))
	case 2:
		return limbScalar(a).Subtract(limbScalar(new(big.Int).Mod(new(big.Int).Sub(a, v), ref.N)))
	case 3:
		if r := new(big.Int).ModSqrt(v, ref.N); r != nil {
			return limbScalar(r).Square()
		}
		return provenance(v, 0)
	default:
		if v.Sign() == 0 {
			return provenance(v, 1)
		}
		return limbScalar(new(big.Int).ModInverse(v, ref.N)).Invert()
	}
}

// Build constructs the scalar: canonical values through Decode, Montgomery patterns by writing limbs; with
// Hist > 0 the value is installed into an object that was used before.
// Build constructs the scalar (see build0) and puts it where Home says.
func (s SV) Build() *secp256k1.Scalar { return rehome(s.build0(), s.Home) }

func (s SV) build0() *secp256k1.Scalar {
	if s.Hist >= ProvBase {
		return provenance(s.Value(), s.Hist-ProvBase)
	}
	if s.Hist > 0 {
		fresh := SV{Hex: s.Hex, Mont: s.Mont}.build0()
		used := secp256k1.NewScalar().SetUInt64(0xdeadbeef)
		if s.Hist%2 == 0 || s.Hist == 11 {
			// the object got its previous value from a decoder (whatever a decoder remembers about its input belongs to that value)
			_ = used.Decode(ref.Bytes32(new(big.Int).SetUint64(0xdeadbeef + uint64(s.Hist))))
		}
		_ = used.Bits()
		_ = used.Encode()
		_ = used.IsZero()
		_ = used.IsOne() // (Element.Multiply uses the scalar through IsOne and Bits only)
		installers[(s.Hist-1)%len(installers)](used, fresh)
		return used
	}
	out := secp256k1.NewScalar()
	v := gen.B(s.Hex)
	if s.Mont {
		l := gen.ToLimbs(v)
		copy(out.S[:], l[:])
		return out
	}
	if err := out.Decode(ref.Bytes32(v)); err != nil {
		panic("Scalar.Decode rejected the canonical 32-byte encoding of " + s.Hex + " (a value < n): " + err.Error())
	}
	return out
}

// RelatedSV derives from s a DIFFERENT scalar whose stored limbs (in the domain s is given in) look alike: one limb replaced, one
// bit flipped, two limbs swapped, limbs rotated, the same word xor-ed into two limbs (the xor of the limbs is kept), a word moved
// from one limb to another (the sum of the limbs is kept). It is used right BEFORE the call under test, on another object:
// whatever a call remembers about its operand (a one-entry cache, a table keyed by part of the value, by a fold of the limbs)
// must not leak into the next call on a look-alike operand.
func RelatedSV(t *rapid.T, s SV) SV {
	l := gen.ToLimbs(gen.B(s.Hex))
	i, j := gen.Pick(t, "ri", 4), gen.Pick(t, "rj", 4)
	if i == j {
		j = (i + 1) % 4
	}
	x := gen.U64(t, "rx")
	switch gen.Pick(t, "relKind", 6) {
	case 0:
		l[i] = x
	case 1:
		l[i] ^= 1 << (x % 64)
	case 2:
		l[i], l[j] = l[j], l[i]
	case 3:
		l = [4]uint64{l[1], l[2], l[3], l[0]}
	case 4:
		l[i] ^= x
		l[j] ^= x
	default:
		l[i] += x
		l[j] -= x
	}
	v := gen.FromLimbs(l)
	if v.Cmp(ref.N) >= 0 {
		l[3] &= 1<<63 - 1
		v = gen.FromLimbs(l)
	}
	return SV{Hex: gen.H(v), Mont: s.Mont}
}

// SVGen draws scalar values in both domains.
func SVGen() *rapid.Generator[SV] {
	return rapid.Custom(func(t *rapid.T) SV {
		v := gen.Int(ref.N).Draw(t, "sv")
		mont := rapid.IntRange(0, 2).Draw(t, "mont") == 0
		sv := SV{Hex: gen.H(v), Mont: mont}
		if gen.Chance(t, "hist", 1, 4) {
			sv.Hist = 1 + gen.Pick(t, "installer", NumInstallers)
		} else if gen.Chance(t, "prov", 1, 6) {
			sv.Hist = ProvBase + gen.Pick(t, "provenance", NumProv)
		}
		if gen.Chance(t, "home", 1, 6) {
			sv.Home = 1 + gen.Pick(t, "homeKind", 3)
		}
		return sv
	})
}

// montValue reads the scalar's value from its limbs without using any code under test.
func montValue(s *secp256k1.Scalar) *big.Int {
	m := gen.FromLimbs([4]uint64(s.S))
	return m.Mod(m.Mul(m, rNInv), ref.N)
}

// limbsCanonical reports whether the stored limbs are < n.
func limbsCanonical(s *secp256k1.Scalar) bool {
	return gen.FromLimbs([4]uint64(s.S)).Cmp(ref.N) < 0
}

// checkScalar asserts that s is stored canonically, denotes want, and encodes to want's 32 bytes.
func checkScalar(site string, s *secp256k1.Scalar, want *big.Int) error {
	if !limbsCanonical(s) {
		return gen.Fail(site+"/non-canonical", "stored limbs %v are not < n", s.S)
	}
	if got := montValue(s); got.Cmp(want) != 0 {
		return gen.Fail(site+"/value", "value %x, want %x", got, want)
	}
	if enc := s.Encode(); !bytes.Equal(enc, ref.Bytes32(want)) {
		return gen.Fail(site+"/encode", "Encode %x, want %x", enc, ref.Bytes32(want))
	}
	return nil
}

func TestMain(m *testing.M) { gen.Main(m) }

// TestReplay replays $VERIF_REPLAY.
func TestReplay(t *testing.T) { gen.ReplayMain(t) }

// hostileCaller does what the API allows any caller to do with values it was handed: it overwrites the slice
// returned by Order and mutates elements and scalars returned by constructors. Every returned value is documented
// (C15) to be fresh, so this must have no effect on later calls; it runs at the start of every case of the checks
// below, so that a defect of this kind shows in every case and replays deterministically.
func hostileCaller() {
	pt.RecoveredPanics()
	if msg := pt.ProbeNewAPI(8); msg != "" {
		panic("a function the tree added to the API breaks an invariant: " + msg)
	}
	o := secp256k1.Order()
	for i := range o {
		o[i] = 0
	}
	secp256k1.Base().Double().Negate()
	secp256k1.NewElement().Base()
	secp256k1.NewScalar().MinusOne()
}

// errClass returns the class of a failure (or "error").
func errClass(err error) string {
	var f *gen.Failure
	if errors.As(err, &f) {
		return f.Class
	}
	return "error"
}
