// Package props holds the checks that need only the public API of the package under test.
package props

import (
	"bytes"
	"math/big"
	"testing"

	"github.com/bytemare/secp256k1"
	"github.com/bytemare/secp256k1/verifharness/gen"
	"github.com/bytemare/secp256k1/verifharness/ref"
	"pgregory.net/rapid"
)

var (
	rN    = new(big.Int).Mod(new(big.Int).Lsh(big.NewInt(1), 256), ref.N) // Montgomery R mod n
	rNInv = new(big.Int).ModInverse(rN, ref.N)
)

// SV is a scalar value in a case file: Hex is either the canonical value or, when Mont is set, the
// integer formed by the Montgomery limbs (value = limbs * R^-1 mod n). Both are < n.
type SV struct {
	Hex  string `json:"v"`
	Mont bool   `json:"mont,omitempty"`
}

// Value is the canonical integer the SV denotes.
func (s SV) Value() *big.Int {
	v := gen.B(s.Hex)
	if s.Mont {
		return v.Mod(v.Mul(v, rNInv), ref.N)
	}
	return v
}

// Build constructs the scalar: canonical values through Decode, Montgomery patterns by writing limbs.
func (s SV) Build() *secp256k1.Scalar {
	out := secp256k1.NewScalar()
	v := gen.B(s.Hex)
	if s.Mont {
		l := gen.ToLimbs(v)
		copy(out.S[:], l[:])
		return out
	}
	if err := out.Decode(ref.Bytes32(v)); err != nil {
		panic("harness: cannot decode canonical scalar " + s.Hex + ": " + err.Error())
	}
	return out
}

// SVGen draws scalar values in both domains.
func SVGen() *rapid.Generator[SV] {
	return rapid.Custom(func(t *rapid.T) SV {
		v := gen.Int(ref.N).Draw(t, "sv")
		mont := rapid.IntRange(0, 2).Draw(t, "mont") == 0
		return SV{Hex: gen.H(v), Mont: mont}
	})
}

// montValue reads the scalar's value from its limbs without using any code under test.
func montValue(s *secp256k1.Scalar) *big.Int {
	m := gen.FromLimbs([4]uint64(s.S))
	return m.Mod(m.Mul(m, rNInv), ref.N)
}

// limbsCanonical reports whether the stored limbs are < n.
func limbsCanonical(s *secp256k1.Scalar) bool {
	return gen.FromLimbs([4]uint64(s.S)).Cmp(ref.N) < 0
}

// checkScalar asserts that s is stored canonically, denotes want, and encodes to want's 32 bytes.
func checkScalar(site string, s *secp256k1.Scalar, want *big.Int) error {
	if !limbsCanonical(s) {
		return gen.Fail(site+"/non-canonical", "stored limbs %v are not < n", s.S)
	}
	if got := montValue(s); got.Cmp(want) != 0 {
		return gen.Fail(site+"/value", "value %x, want %x", got, want)
	}
	if enc := s.Encode(); !bytes.Equal(enc, ref.Bytes32(want)) {
		return gen.Fail(site+"/encode", "Encode %x, want %x", enc, ref.Bytes32(want))
	}
	return nil
}

func TestMain(m *testing.M) { gen.Main(m) }

// TestReplay replays $VERIF_REPLAY.
func TestReplay(t *testing.T) { gen.ReplayMain(t) }
