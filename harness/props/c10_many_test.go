package props

import (
	"bytes"
	"math/big"
	"testing"

	"github.com/bytemare/secp256k1"
	"github.com/bytemare/secp256k1/verifharness/gen"
	"github.com/bytemare/secp256k1/verifharness/ref"
	"pgregory.net/rapid"
)

// C10/many-objects: hundreds of thousands of elements and scalars are alive at the same time (a table of public keys, a batch of
// shares), created by one goroutine and checked and mutated by another: every one of them keeps its own value. Whatever a
// library keeps per object outside the object (side tables keyed by address, registries with a capacity, weak caches) shows here.

type caseC10many struct {
	N    int    `json:"n"`
	Kind string `json:"kind"` // element | scalar
	K    string `json:"k"`    // first value: [K]G or K
}

var c10many = gen.Register(&gen.Check[caseC10many]{
	Name:   "C10/many-objects",
	Weight: 0.0005,
	Gen: func(t *rapid.T) caseC10many {
		c := caseC10many{Kind: "element", K: gen.H(gen.NonZeroInt(ref.N).Draw(t, "k"))}
		c.N = 20000 + gen.Pick(t, "n", 100000)
		if rapid.Bool().Draw(t, "scalar") {
			c.Kind, c.N = "scalar", c.N*4
		}
		return c
	},
	Fixed: func() []caseC10many {
		return []caseC10many{{N: 300000, Kind: "element", K: "05"}, {N: 1 << 20, Kind: "scalar", K: "0123456789abcdef"}}
	},
	Required: []string{"objects>=2^18"},
	Run: func(c caseC10many, o *gen.Obs) error {
		o.Class("kind:" + c.Kind)
		o.ClassIf(c.N >= 1<<18, "objects>=2^18")
		o.NonTrivial()
		k := gen.B(c.K)
		if c.Kind == "scalar" {
			return manyScalars(c.N, k)
		}
		return manyElements(c.N, k)
	},
})

func manyElements(n int, k *big.Int) error {
	g := ref.G()
	start := ref.Mul(k, g)
	objs := make([]*secp256k1.Element, n)
	done := make(chan struct{})
	go func() { // created on another goroutine
		defer close(done)
		acc := secp256k1.NewElement()
		_ = acc.Decode(ref.Compress(start))
		base := secp256k1.Base()
		for i := range objs {
			objs[i] = acc.Copy()
			acc.Add(base)
		}
	}()
	<-done
	base, tmp := secp256k1.Base(), secp256k1.NewElement()
	check := func(pass int, step *secp256k1.Element, stepModel ref.Point, first ref.Point) error {
		for i := 0; i+1 < n; i++ {
			if tmp.Set(objs[i]).Add(step).Equal(objs[i+1]) != 1 {
				return gen.Fail("many-objects/element-relation", "pass %d: object %d of %d plus the step is not object %d", pass, i, n, i+1)
			}
		}
		for i := 0; i < n; i = i*2 + 1 { // absolute checkpoints
			want := ref.Add(first, ref.Mul(big.NewInt(int64(i)), stepModel))
			if enc := objs[i].Encode(); !bytes.Equal(enc, ref.Compress(want)) {
				return gen.Fail("many-objects/element-value", "pass %d: object %d of %d encodes to %x, model %x", pass, i, n, enc, ref.Compress(want))
			}
		}
		return nil
	}
	if err := check(0, base, g, start); err != nil {
		return err
	}
	for _, e := range objs { // every object mutated in place
		e.Double()
	}
	return check(1, secp256k1.Base().Double(), ref.Double(g), ref.Double(start))
}

func manyScalars(n int, k *big.Int) error {
	objs := make([]*secp256k1.Scalar, n)
	done := make(chan struct{})
	three := secp256k1.NewScalar().SetUInt64(3)
	go func() {
		defer close(done)
		acc := SV{Hex: gen.H(k)}.Build()
		for i := range objs {
			objs[i] = acc.Copy()
			acc.Add(three)
		}
	}()
	<-done
	var buf [32]byte
	check := func(pass int, mul int64) error {
		v := new(big.Int).Mul(k, big.NewInt(mul))
		step := big.NewInt(3 * mul)
		for i, s := range objs {
			v.Mod(v, ref.N)
			if enc := s.Encode(); !bytes.Equal(enc, v.FillBytes(buf[:])) {
				return gen.Fail("many-objects/scalar-value", "pass %d: object %d of %d encodes to %x, model %x", pass, i, n, enc, v)
			}
			v.Add(v, step)
		}
		return nil
	}
	if err := check(0, 1); err != nil {
		return err
	}
	for _, s := range objs {
		s.Add(s)
	}
	return check(1, 2)
}

func TestC10ManyObjects(t *testing.T) { c10many.Execute(t) }
