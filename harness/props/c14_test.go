package props

import (
	"math/big"
	"testing"

	"github.com/bytemare/secp256k1"

	"github.com/bytemare/secp256k1/verifharness/gen"
	"github.com/bytemare/secp256k1/verifharness/ref"
	"pgregory.net/rapid"
)

// C14: Bits is the exact 256-bit little-endian binary expansion of the canonical value.

type caseC14 struct {
	S SV `json:"s"`
	// Noise selects other API calls made just before Bits (on unrelated objects): what they leave behind in the package must
	// not matter.
	Noise int `json:"noise,omitempty"`
	// Prev: Bits (and a multiplication, which expands its scalar too) is first called on another scalar object holding this
	// look-alike value.
	Prev *SV `json:"prev,omitempty"`
}

func apiNoise(k int) {
	switch k {
	case 1:
		secp256k1.Base().Multiply(secp256k1.NewScalar().One())
	case 2:
		secp256k1.Base().Multiply(secp256k1.NewScalar().MinusOne())
	case 3:
		_ = secp256k1.NewScalar().MinusOne().Bits()
	case 4:
		secp256k1.Base().Multiply(secp256k1.NewScalar())
	case 5:
		secp256k1.NewScalar().SetUInt64(3).Pow(secp256k1.NewScalar().SetUInt64(5))
	}
}

var c14 = gen.Register(&gen.Check[caseC14]{
	Name: "C14/bits",
	Gen: func(t *rapid.T) caseC14 {
		c := caseC14{S: SVGen().Draw(t, "s")}
		if gen.Chance(t, "noise", 1, 3) {
			c.Noise = 1 + gen.Pick(t, "noiseKind", 5)
		}
		if gen.Chance(t, "prev", 1, 3) {
			r := RelatedSV(t, c.S)
			c.Prev = &r
		}
		return c
	},
	Fixed: func() []caseC14 {
		var out []caseC14
		nm1 := new(big.Int).Sub(ref.N, big.NewInt(1))
		for _, v := range []*big.Int{
			big.NewInt(0), big.NewInt(1), big.NewInt(2), nm1,
			new(big.Int).Lsh(big.NewInt(1), 255), new(big.Int).Lsh(big.NewInt(1), 254),
			new(big.Int).Lsh(big.NewInt(1), 63), new(big.Int).Lsh(big.NewInt(1), 64), new(big.Int).Lsh(big.NewInt(1), 128),
		} {
			out = append(out, caseC14{S: SV{Hex: gen.H(v)}})
			for k := 1; k <= 5; k++ {
				out = append(out, caseC14{S: SV{Hex: gen.H(v)}, Noise: k})
			}
		}
		for _, v := range gen.DictFixed(ref.N, gen.DictStride()) {
			out = append(out, caseC14{S: SV{Hex: gen.H(v)}}, caseC14{S: SV{Hex: gen.H(v), Mont: true}})
		}
		// exhaustive over limb-pattern products, canonical and Montgomery
		for _, m := range gen.WordProducts(new(big.Int), 64, func(w, mask uint64) []uint64 { return gen.LimbPatterns }) {
			if m.Cmp(ref.N) < 0 {
				out = append(out, caseC14{S: SV{Hex: gen.H(m), Mont: true}}, caseC14{S: SV{Hex: gen.H(m)}})
			}
		}
		return out
	},
	Required: []string{"bit255", "mont-domain", "used-object", "after-look-alike"},
	Run: func(c caseC14, o *gen.Obs) error {
		want := c.S.Value()
		s := c.S.Build()
		o.NonTrivialIf(want.Cmp(big.NewInt(1)) > 0)
		o.ClassIf(want.Bit(255) == 1, "bit255")
		o.ClassIf(c.S.Mont, "mont-domain")
		o.ClassIf(c.S.Hist > 0, "used-object")
		apiNoise(c.Noise)
		o.ClassIf(c.Noise > 0, "after-other-calls")
		if c.Prev != nil {
			_ = c.Prev.Build().Bits()
			o.Class("after-look-alike")
		}
		before := s.S
		bits := s.Bits()
		if s.S != before {
			return gen.Fail("Bits/mutates-receiver", "Bits changed the scalar")
		}
		if len(bits) != 256 {
			return gen.Fail("Bits/len", "len %d", len(bits))
		}
		sum := new(big.Int)
		for i := 255; i >= 0; i-- {
			if bits[i] > 1 {
				return gen.Fail("Bits/entry-range", "bits[%d] = %d", i, bits[i])
			}
			if uint(bits[i]) != want.Bit(i) {
				return gen.Fail("Bits/position", "s=%x: bits[%d] = %d, want %d", want, i, bits[i], want.Bit(i))
			}
			sum.Lsh(sum, 1)
			sum.Or(sum, big.NewInt(int64(bits[i])))
		}
		if enc := new(big.Int).SetBytes(s.Encode()); sum.Cmp(enc) != 0 {
			return gen.Fail("Bits/sum-vs-encode", "sum %x != Encode %x", sum, enc)
		}
		return nil
	},
})

func TestC14Bits(t *testing.T) { c14.Execute(t) }
