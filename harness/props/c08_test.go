package props

import (
	"bytes"
	"crypto/rand"
	"encoding/hex"
	"errors"
	"fmt"
	"os"
	"runtime"
	"strconv"
	"testing"
	"time"

	"github.com/bytemare/secp256k1"
	"github.com/bytemare/secp256k1/verifharness/gen"
	"github.com/bytemare/secp256k1/verifharness/ref"
	"pgregory.net/rapid"
)

// C08: HashToGroup / EncodeToGroup conform to RFC 9380 for every message and DST.
// C09 (public-API half): HashToScalar is hash_to_field over the scalar field.

type caseH2C struct {
	Fn     string     `json:"fn"` // ro | nu | scalar
	Msg    string     `json:"msg"`
	Dst    string     `json:"dst"`
	NilMsg bool       `json:"nil_msg,omitempty"`
	NilDst bool       `json:"nil_dst,omitempty"`
	MsgLay gen.Layout `json:"msg_layout"`
	DstLay gen.Layout `json:"dst_layout"`
	Grid   bool       `json:"grid,omitempty"` // member of the exhaustive length grid
	Same   bool       `json:"same,omitempty"` // the message IS the DST: one slice passed in both roles
}

var (
	dstLens = []int{16, 255, 256, 257, 1, 300, 254, 1000, 2, 15, 17, 31, 32, 33, 49, 64, 128}
	msgLens = []int{0, 1, 3, 16, 55, 56, 63, 64, 65, 119, 120, 128, 512}
)

func genMsgDst(t *rapid.T) (msg, dst []byte) {
	if rapid.Bool().Draw(t, "msgPat") {
		msg = gen.Bytes(0, 0).Draw(t, "m0")
		n := rapid.SampledFrom(msgLens).Draw(t, "mlen")
		msg = rapid.SliceOfN(rapid.Byte(), n, n).Draw(t, "msg")
	} else {
		msg = gen.Bytes(0, 600).Draw(t, "msg")
	}
	switch rapid.IntRange(0, 3).Draw(t, "dstKind") {
	case 0:
		dst = gen.Bytes(1, 80).Draw(t, "dst")
	case 1:
		dst = gen.Bytes(200, 320).Draw(t, "dst")
	default:
		n := rapid.SampledFrom(dstLens).Draw(t, "dlen")
		dst = rapid.SliceOfN(rapid.Byte(), n, n).Draw(t, "dst")
	}
	return msg, dst
}

func genH2C(fns []string) func(t *rapid.T) caseH2C {
	return func(t *rapid.T) caseH2C {
		msg, dst := genMsgDst(t)
		c := caseH2C{Fn: rapid.SampledFrom(fns).Draw(t, "fn"), Msg: hex.EncodeToString(msg), Dst: hex.EncodeToString(dst),
			MsgLay: gen.LayoutGen().Draw(t, "ml"), DstLay: gen.LayoutGen().Draw(t, "dl")}
		c.Same = gen.Chance(t, "sameSlice", 1, 20)
		if ds := gen.Dict().Strings; len(ds) > 0 && gen.Chance(t, "dictString", 1, 10) {
			// tags and prefixes the code itself compares and prepends (string literals of the tree under test), as the DST or the
			// message, alone or followed by more bytes: such strings are not reserved for the library
			lit := ds[gen.Pick(t, "lit", len(ds))]
			ext := append(append([]byte{}, lit...), gen.Bytes(0, 20).Draw(t, "litExt")...)
			switch gen.Pick(t, "litWhere", 4) {
			case 0:
				c.Dst = hex.EncodeToString(lit)
			case 1, 2:
				c.Dst = hex.EncodeToString(ext)
			default:
				c.Msg = hex.EncodeToString(ext)
			}
		}
		switch gen.Pick(t, "special", 60) {
		case 57:
			c.Dst, c.NilDst = "", true
		case 58:
			c.Dst = ""
		case 59:
			c.Msg, c.NilMsg = "", true
		}
		return c
	}
}

// lengthGrid enumerates (message length, DST length) pairs exhaustively over a small rectangle: defects tied to one
// total pre-image length (buffer sizes, block boundaries, off-by-one in a fast path) are invisible to random lengths.
func lengthGrid(fns []string) []caseH2C {
	maxMsg, dls := 300, []int{1, 16, 20, 32, 49, 64, 100, 200, 255, 256, 300}
	if os.Getenv("VERIF_TIER") == "thorough" {
		maxMsg = 1100
		dls = append(dls, 2, 15, 17, 31, 33, 48, 63, 65, 127, 128, 129, 254, 257, 511, 1000)
	}
	var out []caseH2C
	for _, fn := range fns {
		for _, dl := range dls {
			dst := make([]byte, dl)
			for i := range dst {
				dst[i] = byte(i*13 + dl)
			}
			for ml := 0; ml <= maxMsg; ml++ {
				msg := make([]byte, ml)
				for i := range msg {
					msg[i] = byte(i*7 + ml)
				}
				out = append(out, caseH2C{Fn: fn, Msg: hex.EncodeToString(msg), Dst: hex.EncodeToString(dst), Grid: true})
			}
		}
	}
	// DST lengths around multiples of 2^16 (length fields are 1 and 2 bytes wide), and pre-image lengths around powers of two
	// (b0 = H(Z_pad(64) || msg || l_i_b(2) || 0 || DST || len(DST))): fixed-size buffers and their fast paths end there
	mk := func(fn string, ml, dl int) {
		dst := make([]byte, dl)
		for i := range dst {
			dst[i] = byte(i*13 + dl)
		}
		msg := make([]byte, ml)
		for i := range msg {
			msg[i] = byte(i*7 + ml)
		}
		out = append(out, caseH2C{Fn: fn, Msg: hex.EncodeToString(msg), Dst: hex.EncodeToString(dst), Grid: true})
	}
	for _, fn := range fns {
		for _, dl := range []int{65535, 65536, 65537, 65791, 65792, 131072, 131073} {
			mk(fn, 3, dl)
		}
		for _, b := range []int{128, 256, 512, 1024, 2048, 4096, 8192} {
			for _, dl := range []int{1, 16, 49, 255, 300} {
				eff := dl
				if dl > 255 {
					eff = 32
				}
				for d := -3; d <= 3; d++ {
					if ml := b + d - (64 + 2 + 1 + eff + 1); ml >= 0 {
						mk(fn, ml, dl)
					}
				}
			}
		}
	}
	return out
}

func fixedH2C(fns []string) func() []caseH2C {
	return func() []caseH2C {
		out := lengthGrid(fns)
		for _, fn := range fns {
			for _, dl := range []int{1, 16, 254, 255, 256, 257, 1000} {
				for _, post := range []int{0, 1, 64} {
					out = append(out, caseH2C{Fn: fn, Msg: hex.EncodeToString([]byte("abc")), Dst: hex.EncodeToString(bytes.Repeat([]byte{'D'}, dl)), DstLay: gen.Layout{Post: post}})
				}
				// the spare capacity behind the DST (and behind the message) already holds what a length-suffixed copy would hold
				for _, fill := range []int{1, 2, 3, 4} {
					for _, post := range []int{1, 2, 7} {
						out = append(out, caseH2C{Fn: fn, Msg: hex.EncodeToString([]byte("abc")), Dst: hex.EncodeToString(bytes.Repeat([]byte{'D'}, dl)),
							DstLay: gen.Layout{Post: post, Fill: fill}, MsgLay: gen.Layout{Post: post, Fill: fill}})
					}
				}
			}
			for _, ml := range []int{4096, 65535, 65536, 100000} {
				long := make([]byte, ml)
				for i := range long {
					long[i] = byte(i * 31)
				}
				out = append(out, caseH2C{Fn: fn, Msg: hex.EncodeToString(long), Dst: hex.EncodeToString([]byte("QUUX-V01-CS02-with-secp256k1_XMD:SHA-256_SSWU_RO_"))})
			}
			out = append(out, caseH2C{Fn: fn, Msg: "", Dst: "", NilDst: true}, caseH2C{Fn: fn, Msg: "00", Dst: ""},
				caseH2C{Fn: fn, NilMsg: true, Dst: hex.EncodeToString([]byte("QUUX-V01-CS02-with-secp256k1_XMD:SHA-256_SSWU_RO_"))})
		}
		return out
	}
}

// callHash runs the function under test, reporting a panic as a value.
func callHash(fn string, msg, dst []byte) (enc []byte, panicked any) {
	defer func() { panicked = recover() }()
	switch fn {
	case "ro":
		return secp256k1.HashToGroup(msg, dst).Encode(), nil
	case "nu":
		return secp256k1.EncodeToGroup(msg, dst).Encode(), nil
	default:
		return secp256k1.HashToScalar(msg, dst).Encode(), nil
	}
}

func runH2C(c caseH2C, o *gen.Obs) error {
	msgData, dstData := gen.HexBytes(c.Msg), gen.HexBytes(c.Dst)
	msg, _ := gen.Place(msgData, c.MsgLay)
	dst, _ := gen.Place(dstData, c.DstLay)
	if c.NilMsg {
		msg = nil
	}
	if c.NilDst {
		dst = nil
	}
	if c.Same && len(dstData) > 0 {
		msg, msgData = dst, dstData // one slice in both roles
		o.Class("msg-is-dst")
	}
	o.Class("fn:" + c.Fn)
	o.ClassIf(c.Grid, "length-grid")
	site := map[string]string{"ro": "HashToGroup", "nu": "EncodeToGroup", "scalar": "HashToScalar"}[c.Fn]
	got, pnc := callHash(c.Fn, msg, dst)
	if len(dstData) == 0 {
		o.Class("empty-dst")
		if pnc == nil {
			return gen.Fail(site+"/empty-dst-no-panic", "empty or nil DST did not panic; returned %x", got)
		}
		return nil
	}
	if pnc != nil {
		return gen.Fail(site+"/panic", "panic for msg=%d bytes, dst=%d bytes: %v", len(msgData), len(dstData), pnc)
	}
	o.NonTrivial()
	o.ClassIf(len(dstData) > 255, "dst>255")
	o.ClassIf(len(dstData) == 255, "dst=255")
	o.ClassIf(len(dstData) == 256, "dst=256")
	o.ClassIf(len(dstData) < 16, "dst<16")
	o.ClassIf(c.DstLay.Post > 0, "dst-spare-capacity")
	o.ClassIf(c.DstLay.Post > 0 && c.DstLay.Fill == 2, "dst-followed-by-its-length")
	o.ClassIf(len(msgData) == 0, "msg-empty")
	o.ClassIf(len(msgData) > 64, "msg>1block")
	var want []byte
	switch c.Fn {
	case "scalar":
		want = ref.Bytes32(ref.HashToScalar(msgData, dstData))
	default:
		var (
			p  ref.Point
			tr ref.H2CTrace
		)
		if c.Fn == "ro" {
			p, tr = ref.HashToCurve(msgData, dstData)
		} else {
			p, tr = ref.EncodeToCurve(msgData, dstData)
		}
		want = ref.Compress(p)
		for i, st := range tr.Tr {
			o.Class(fmt.Sprintf("u%d:gx1square=%v,signflip=%v", i, st.Gx1Square, st.SignFlipped))
		}
	}
	if !bytes.Equal(got, want) {
		return gen.Fail(site+"/value", "%s(msg=%x, dst[%d]=%x) = %x, want %x", site, msgData, len(dstData), dstData, got, want)
	}
	// deterministic function of (msg, DST): fresh copies, different layout
	got2, pnc2 := callHash(c.Fn, append([]byte(nil), msgData...), append([]byte(nil), dstData...))
	if pnc2 != nil || !bytes.Equal(got2, got) {
		return gen.Fail(site+"/non-deterministic", "second call gave %x (panic %v), first %x", got2, pnc2, got)
	}
	if c.Fn != "scalar" {
		// the result is a valid group element
		if err := secp256k1.NewElement().Decode(got); err != nil {
			return gen.Fail(site+"/invalid-element", "result %x is rejected by Decode: %v", got, err)
		}
	}
	return nil
}

var c08 = gen.Register(&gen.Check[caseH2C]{
	Name:     "C08/hash2curve",
	Gen:      genH2C([]string{"ro", "nu"}),
	Fixed:    fixedH2C([]string{"ro", "nu"}),
	Run:      runH2C,
	Required: []string{"length-grid", "dst>255", "dst=255", "dst=256", "dst-spare-capacity", "empty-dst", "fn:ro", "fn:nu", "u0:gx1square=false,signflip=true", "u1:gx1square=true,signflip=false"},
})

// The sequence checks run FIRST in their process (tests run in source order): their fixed cases include pairs of requests that a
// bounded process-wide memo would confuse (checksum twins, shifted boundaries), and a memo that stops admitting entries after
// the first few dozen requests of a process is only exposed to the requests that come first (seeded C08-n).
func TestC08Sequence(t *testing.T) { c08seq.Execute(t) }

func TestC09Sequence(t *testing.T) { c09seq.Execute(t) }

func TestC08HashToCurve(t *testing.T) { c08.Execute(t) }

var c09api = gen.Register(&gen.Check[caseH2C]{
	Name:     "C09/hash2scalar",
	Gen:      genH2C([]string{"scalar"}),
	Fixed:    fixedH2C([]string{"scalar"}),
	Run:      runH2C,
	Required: []string{"length-grid", "dst>255", "dst=255", "dst=256", "empty-dst"},
})

func TestC09HashToScalar(t *testing.T) { c09api.Execute(t) }

// --- sequences of hashing calls from re-used caller buffers -------------------------------------------------------
// "A deterministic function of (message, DST)" and "no mutable global state" also mean: what an earlier call saw must
// not influence a later one. A caller that keeps one buffer and overwrites it between calls is the history that
// exposes caches keyed by (or aliasing) caller memory.

type h2cStep struct {
	Fn  string `json:"fn"`
	Msg string `json:"msg"`
	Dst string `json:"dst"`
	// MsgLen > 0: the message is MsgLen bytes of a fixed pattern instead of Msg (messages of megabytes: what a call with a
	// very large input leaves behind - grown scratch buffers, pool entries dropped or kept - must not reach the next call).
	MsgLen int `json:"msg_len,omitempty"`
	// DstLen > 0: the DST is DstLen bytes of a fixed pattern instead of Dst ("a tag of any length": megabytes of it go through the
	// oversize-DST hashing like 256 bytes do)
	DstLen int `json:"dst_len,omitempty"`
	Rep    int `json:"rep,omitempty"` // steps with an empty DST (the documented panic): how many times the call is made
	// SleepMs: time passes before this step (fixed cases only: expiring caches, periodic background work)
	SleepMs int `json:"sleep_ms,omitempty"`
	// FailRandom: before this step Scalar.Random is called while the entropy source fails (the documented panic, recovered)
	FailRandom bool `json:"fail_random,omitempty"`
}

func (st h2cStep) message() []byte {
	if st.MsgLen == 0 {
		return gen.HexBytes(st.Msg)
	}
	m := make([]byte, st.MsgLen)
	for i := range m {
		m[i] = byte(i*31 + st.MsgLen)
	}
	return m
}

func (st h2cStep) dstBytes() []byte {
	if st.DstLen == 0 {
		return gen.HexBytes(st.Dst)
	}
	d := make([]byte, st.DstLen)
	for i := range d {
		d[i] = byte(i*17 + st.DstLen + 3)
	}
	return d
}

// hugeSequences are fixed cases: a call with a message of 1 MiB + 1, 3 MiB, 16 MiB + 3 bytes followed by ordinary calls.
func hugeSequences(fns []string) []caseH2CSeq {
	var out []caseH2CSeq
	d16, d300 := hex.EncodeToString(bytes.Repeat([]byte{'d'}, 16)), hex.EncodeToString(bytes.Repeat([]byte{'D'}, 300))
	for i, n := range []int{1<<20 + 1, 3 << 20, 1<<24 + 3, 1 << 16, 200000} {
		fn := fns[i%len(fns)]
		fn2 := fns[(i+1)%len(fns)]
		out = append(out, caseH2CSeq{Steps: []h2cStep{{Fn: fn, Dst: d16, MsgLen: n}, {Fn: fn, Msg: "616263", Dst: d16}, {Fn: fn2, Msg: "", Dst: d300},
			{Fn: fn2, Msg: hex.EncodeToString(bytes.Repeat([]byte{'m'}, 100)), Dst: d16}, {Fn: fn, Dst: d300, MsgLen: n / 2}, {Fn: fn, Msg: "00", Dst: d16}}, GC: i%2 == 1})
	}
	fn := fns[0]
	// tags of 1 MiB + 1, 16 MiB + 1 and 32 MiB + 3 bytes (oversize-DST hashing of a long tag), followed by ordinary calls
	for i, n := range []int{1<<20 + 1, 1<<24 + 1, 1<<25 + 3} {
		out = append(out, caseH2CSeq{Steps: []h2cStep{{Fn: fns[i%len(fns)], Msg: "616263", DstLen: n}, {Fn: fns[i%len(fns)], Msg: "616263", Dst: d16}, {Fn: fn, Msg: "", Dst: d300}}})
	}
	if os.Getenv("VERIF_TIER") == "thorough" && strconv.IntSize == 64 {
		out = append(out, caseH2CSeq{Steps: []h2cStep{{Fn: fn, Msg: "616263", DstLen: 1<<28 + 7}, {Fn: fn, Msg: "616263", Dst: d16}}})
	}
	if os.Getenv("VERIF_TIER") == "thorough" && strconv.IntSize == 64 {
		// a message of 2^31 + 128 bytes (zeros, backed by an untouched mapping: no memory, two passes of SHA-256 over 2 GiB), then
		// ordinary calls: lengths that do not fit 31 bits
		out = append(out, caseH2CSeq{Steps: []h2cStep{{Fn: fn, Msg: "616263", Dst: d16}, {Fn: fn, Dst: d16, MsgLen: twoGiBPlus()}, {Fn: fn, Msg: "616263", Dst: d16}}})
		// and one of 2^32 + 37 bytes (lengths that do not fit 32 bits; four passes of SHA-256 over 4 GiB in all)
		out = append(out, caseH2CSeq{Steps: []h2cStep{{Fn: fn, Dst: d16, MsgLen: 2*(twoGiBPlus()-128) + 37}, {Fn: fn, Msg: "616263", Dst: d300}}})
	}
	if os.Getenv("VERIF_TIER") == "thorough" {
		out = append(out, caseH2CSeq{Steps: []h2cStep{{Fn: fn, Msg: "616263", Dst: d300}, {Fn: fn, Msg: "616263", Dst: d16}, {Fn: fn, Msg: "616264", Dst: d16, SleepMs: 125000},
			{Fn: fn, Msg: "616263", Dst: d300}, {Fn: fn, Msg: "616263", Dst: d16}}})
	}
	out = append(out, caseH2CSeq{Steps: []h2cStep{{Fn: fn, Msg: "616263", Dst: d16}, {Fn: fn, Msg: "616263", Dst: d300}, {Fn: fn, Msg: "616264", Dst: d16, SleepMs: 1100},
		{Fn: fn, Msg: "616263", Dst: d300}, {Fn: fn, Msg: "616263", Dst: d16, SleepMs: 250}}})
	return out
}

// bufferBoundarySequences are fixed cases around the sizes at which an implementation may switch paths (a scratch buffer of 4, 32 or
// 64 KiB, a pooled block, a "small message" threshold): for every size B among 2^8..2^16, 3*2^8..3*2^14, 10^3..10^5 (thorough: up to
// 2^20 and 10^6) EVERY message length from B - 120 - len(DST) to B + 8 is hashed, with a 16-byte tag and with an oversize tag of 256
// bytes, so that whatever the implementation counts (the message, message + tag, the whole pre-image of b_0 with its 64 + 3 + 1
// bytes of framing, with the raw or the reduced tag) crosses B by -8..+8 in one of the calls. Above that, up to 2^20 and 10^6, only
// the crossings of the message length and of the b_0 pre-image are hashed. Each sequence holds 32 consecutive lengths.
func bufferBoundarySequences(fns []string) []caseH2CSeq {
	var (
		out   []caseH2CSeq
		sizes []int
	)
	full := 1 << 16
	if os.Getenv("VERIF_TIER") == "thorough" {
		full = 1 << 20
	}
	for k := 8; k <= 20; k++ {
		sizes = append(sizes, 1<<k)
		if k <= 18 {
			sizes = append(sizes, 3<<k)
		}
	}
	sizes = append(sizes, 1000, 10000, 100000, 1000000)
	d16, d256 := hex.EncodeToString(bytes.Repeat([]byte{'b'}, 16)), hex.EncodeToString(bytes.Repeat([]byte{'B'}, 256))
	n := 0
	for _, b := range sizes {
		for _, dst := range []struct {
			h        string
			raw, eff int
		}{{d16, 16, 16}, {d256, 256, 32}} {
			var lens []int
			if b <= full {
				for l := b - 120 - dst.raw; l <= b+8; l++ {
					lens = append(lens, l)
				}
			} else {
				for d := -8; d <= 8; d++ {
					lens = append(lens, b+d, b+d-(64+3+1+dst.eff), b+d-dst.raw)
				}
			}
			var steps []h2cStep
			flush := func() {
				if len(steps) > 0 {
					out = append(out, caseH2CSeq{Steps: steps, Spare: n % 2})
					steps = nil
				}
			}
			for _, l := range lens {
				if l < 1 {
					continue
				}
				n++
				steps = append(steps, h2cStep{Fn: fns[n%len(fns)], Dst: dst.h, MsgLen: l})
				if len(steps) == 32 {
					flush()
				}
			}
			flush()
		}
	}
	return out
}

type caseH2CSeq struct {
	Steps []h2cStep `json:"steps"`
	Spare int       `json:"spare"`        // spare capacity left behind the DST in the shared buffer
	GC    bool      `json:"gc,omitempty"` // force a garbage collection between the calls (pools and caches are emptied)
}

func genH2CSeq(fns []string) func(t *rapid.T) caseH2CSeq {
	return func(t *rapid.T) caseH2CSeq {
		c := caseH2CSeq{Spare: rapid.SampledFrom([]int{0, 1, 40}).Draw(t, "spare"), GC: gen.Chance(t, "gc", 1, 8)}
		n := 2 + gen.Pick(t, "nsteps", 5)
		dl := rapid.SampledFrom([]int{300, 256, 16, 1000, 255, 49}).Draw(t, "dlen")
		ml := rapid.IntRange(0, 80).Draw(t, "mlen")
		var dst, msg []byte
		for i := 0; i < n; i++ {
			switch {
			case i == 0 || gen.Chance(t, "fresh", 1, 4):
				if gen.Chance(t, "newlen", 1, 3) {
					dl = rapid.SampledFrom([]int{300, 256, 16, 1000, 255, 49, 257}).Draw(t, "dlen")
				}
				dst = rapid.SliceOfN(rapid.Byte(), dl, dl).Draw(t, "dst")
				msg = rapid.SliceOfN(rapid.Byte(), ml, ml).Draw(t, "msg")
			default: // same lengths, a few bytes changed in place
				dst = append([]byte(nil), dst...)
				dst[rapid.IntRange(0, len(dst)-1).Draw(t, "pos")] ^= byte(1 + rapid.IntRange(0, 254).Draw(t, "flip"))
				if len(msg) > 0 && rapid.Bool().Draw(t, "msgToo") {
					msg = append([]byte(nil), msg...)
					msg[rapid.IntRange(0, len(msg)-1).Draw(t, "mpos")] ^= 0x55
				}
			}
			if gen.Chance(t, "twins", 1, 5) {
				// two consecutive calls whose DSTs (or messages) are CHECKSUM TWINS: same length, and equal under the CRC family and
				// the xor folds at once, or under the additive checksums, or under 32-bit FNV (gen/twins.go). A memo that identifies
				// a tag or a message by a standard checksum answers the second with what belongs to the first.
				fn := rapid.SampledFrom(fns).Draw(t, "twFn")
				a, b := twinSteps(fn, dst, msg, gen.Pick(t, "twKind", 4), rapid.Bool().Draw(t, "twOnMsg"), gen.U64(t, "twSalt"))
				if a != nil {
					c.Steps = append(c.Steps, *a, *b)
					if rapid.Bool().Draw(t, "twAgain") {
						c.Steps = append(c.Steps, *a)
					}
				}
			}
			if gen.Chance(t, "shiftedBoundary", 1, 6) {
				// two consecutive calls whose DST_prime || msg concatenations are byte-for-byte EQUAL although (msg, DST) differ:
				// DST2 = DST1 || len(DST1) || P and msg1 = P || len(DST2) || msg2. Only the RFC's framing (DST_prime LAST, with its
				// length byte) keeps them apart; anything that identifies a request by a naive concatenation confuses them.
				d1 := rapid.SliceOfN(rapid.Byte(), 1, 100).Draw(t, "sbDst")
				pfx := rapid.SliceOfN(rapid.Byte(), 0, 24).Draw(t, "sbP")
				m2 := rapid.SliceOfN(rapid.Byte(), 0, 24).Draw(t, "sbMsg")
				a, b := shiftedBoundaryPair(d1, pfx, m2, rapid.SampledFrom(fns).Draw(t, "sbFn"))
				if rapid.Bool().Draw(t, "sbSwap") {
					a, b = b, a
				}
				c.Steps = append(c.Steps, a, b)
			}
			if i > 0 && gen.Chance(t, "emptyDst", 1, 8) {
				c.Steps = append(c.Steps, h2cStep{Fn: rapid.SampledFrom(fns).Draw(t, "fnr"), Msg: hex.EncodeToString(msg), Rep: rapid.SampledFrom([]int{1, 3, 70, 300}).Draw(t, "rep")})
			}
			c.Steps = append(c.Steps, h2cStep{Fn: rapid.SampledFrom(fns).Draw(t, "fn"), Msg: hex.EncodeToString(msg), Dst: hex.EncodeToString(dst), FailRandom: gen.Chance(t, "failRandom", 1, 8)})
		}
		return c
	}
}

// twinSteps returns two steps of fn whose DSTs (onMsg: messages) are checksum twins of kind 0 (CRC family + xor folds, difference in
// the last 64 bytes), 1 (the same, difference in the first bytes), 2 (additive), 3 (FNV-32 / FNV-32a pair); nil if the string is too short.
func twinSteps(fn string, dst, msg []byte, kind int, onMsg bool, salt uint64) (*h2cStep, *h2cStep) {
	s := dst
	if onMsg {
		s = msg
	}
	var x, y []byte
	switch kind {
	case 0, 1:
		lo, hi := 0, len(s)
		if kind == 1 && len(s) > 64 {
			hi = 64
		}
		if tw := gen.CRCTwins(s, lo, hi, 4); len(tw) > 0 {
			x, y = s, tw[int(salt%uint64(len(tw)))]
		}
	case 2:
		if tw := gen.AdditiveTwins(s, 8); len(tw) > 0 {
			x, y = s, tw[int(salt%uint64(len(tw)))]
		}
	default:
		if len(s) >= 9 {
			x, y = gen.FNV32Pair(s[:len(s)-8], salt, int(salt>>40)&1)
		}
	}
	if x == nil || y == nil {
		return nil, nil
	}
	a, b := h2cStep{Fn: fn, Msg: hex.EncodeToString(msg), Dst: hex.EncodeToString(x)}, h2cStep{Fn: fn, Msg: hex.EncodeToString(msg), Dst: hex.EncodeToString(y)}
	if onMsg {
		a, b = h2cStep{Fn: fn, Msg: hex.EncodeToString(x), Dst: hex.EncodeToString(dst)}, h2cStep{Fn: fn, Msg: hex.EncodeToString(y), Dst: hex.EncodeToString(dst)}
	}
	return &a, &b
}

// twinSequences are the fixed cases of that shape: oversize and ordinary tags and messages, every kind of twin.
func twinSequences(fns []string) []caseH2CSeq {
	var out []caseH2CSeq
	pat := func(n, k int) []byte {
		b := make([]byte, n)
		for i := range b {
			b[i] = byte(i*13 + k*7 + 5)
		}
		return b
	}
	for i, fn := range fns {
		for kind := 0; kind < 4; kind++ {
			for _, dl := range []int{300, 256, 49, 1000} {
				if a, b := twinSteps(fn, pat(dl, kind), []byte("abc"), kind, false, uint64(dl+kind)); a != nil {
					out = append(out, caseH2CSeq{Steps: []h2cStep{*a, *b, *a}, Spare: (i + kind) % 2})
				}
			}
			for _, ml := range []int{40, 120, 700} {
				if a, b := twinSteps(fn, []byte("QUUX-V01-CS02-with-secp256k1_XMD:SHA-256_SSWU_RO_"), pat(ml, kind), kind, true, uint64(ml+kind)); a != nil {
					out = append(out, caseH2CSeq{Steps: []h2cStep{*a, *b}})
				}
			}
		}
	}
	return out
}

// shiftedBoundaryPair returns the steps (msg1, DST1), (msg2, DST2) with DST2 = DST1 || len(DST1) || P and msg1 = P || len(DST2) || msg2.
func shiftedBoundaryPair(d1, pfx, m2 []byte, fn string) (h2cStep, h2cStep) {
	d2 := append(append(append([]byte{}, d1...), byte(len(d1))), pfx...)
	m1 := append(append(append([]byte{}, pfx...), byte(len(d2))), m2...)
	return h2cStep{Fn: fn, Msg: hex.EncodeToString(m1), Dst: hex.EncodeToString(d1)}, h2cStep{Fn: fn, Msg: hex.EncodeToString(m2), Dst: hex.EncodeToString(d2)}
}

// shiftedBoundarySequences are the fixed cases of that shape.
func shiftedBoundarySequences(fns []string) []caseH2CSeq {
	var out []caseH2CSeq
	for i, fn := range fns {
		for _, v := range []struct{ d1, pfx, m2 string }{{"QUUX-V01-CS02-with-secp256k1", "", ""}, {"dst", "prefix", "message"}, {"d", "", "abc"}, {"0123456789abcdef", "P", ""}} {
			a, b := shiftedBoundaryPair([]byte(v.d1), []byte(v.pfx), []byte(v.m2), fn)
			out = append(out, caseH2CSeq{Steps: []h2cStep{a, b, a}, Spare: i % 2})
			out = append(out, caseH2CSeq{Steps: []h2cStep{b, a}, Spare: 1})
		}
	}
	return out
}

// failingReader writes garbage into the buffer it is given and reports an error.
type failingReader struct{ fill byte }

func (f failingReader) Read(p []byte) (int, error) {
	for i := range p {
		p[i] = f.fill + byte(i)
	}
	return 0, errors.New("scripted entropy failure")
}

// twoGiBPlus is 2^31 + 128 where int has 64 bits (a run-time value: the constant does not fit a 32-bit int).
func twoGiBPlus() int {
	n := int64(1)<<31 + 128
	if strconv.IntSize < 64 {
		return 0
	}
	return int(n)
}

// hugeMsg: messages from this length on are zeros in an untouched mapping instead of a buffer.
const hugeMsg = 1 << 30

func runH2CSeq(c caseH2CSeq, o *gen.Obs) error {
	maxD, maxM := 0, 0
	for _, st := range c.Steps {
		if l := max(len(st.Dst)/2, st.DstLen); l > maxD {
			maxD = l
		}
		o.ClassIf(st.DstLen > 1<<24, "dst>16MiB")
		if l := max(len(st.Msg)/2, st.MsgLen); l > maxM && st.MsgLen < hugeMsg {
			maxM = l
		}
		o.ClassIf(st.MsgLen >= 1<<20, "huge-message")
		o.ClassIf(st.MsgLen > 0 && st.MsgLen < 1<<20 && len(c.Steps) > 8, "message-length-sweep-around-buffer-sizes")
	}
	dstBuf, msgBuf := make([]byte, maxD+c.Spare), make([]byte, maxM+c.Spare)
	oversize, inplace, rejected, failedRandoms := 0, 0, 0, 0
	prevLen := -1
	for i, st := range c.Steps {
		var msgData []byte
		if st.MsgLen >= hugeMsg {
			var release func()
			msgData, release = gen.Huge(int64(st.MsgLen), nil)
			defer release()
			if msgData == nil {
				continue
			}
			o.Class("message>=2^30")
		} else {
			msgData = st.message()
		}
		dstData := st.dstBytes()
		if i > 0 && st.DstLen == 0 && st.MsgLen == 0 && c.Steps[i-1].DstLen == 0 && c.Steps[i-1].MsgLen == 0 {
			for _, pr := range [][2][]byte{{gen.HexBytes(c.Steps[i-1].Dst), dstData}, {gen.HexBytes(c.Steps[i-1].Msg), msgData}} {
				for _, kind := range []string{"crc", "additive", "fnv32a", "fnv32"} {
					if len(pr[0]) >= 8 && gen.TwinsAgree(pr[0], pr[1], kind, 3) == "" {
						o.Class("after-checksum-twin:" + kind)
						o.ClassIf(len(pr[0]) > 255 && len(pr[0]) == len(dstData), "after-checksum-twin-of-an-oversize-dst")
					}
				}
			}
		}
		if len(dstData) == 0 {
			// the documented panic (empty DST), recovered by the caller, st.Rep times: what follows must be unaffected
			for r := 0; r < max(1, st.Rep); r++ {
				if _, pnc := callHash(st.Fn, msgData, dstBuf[:0]); pnc == nil {
					return gen.Fail("sequence/empty-dst-accepted", "step %d: %s accepted an empty DST", i, st.Fn)
				}
			}
			rejected++
			continue
		}
		if c.GC && i > 0 {
			runtime.GC()
		}
		if st.FailRandom {
			failedRandoms++
			func() {
				saved := rand.Reader
				rand.Reader = failingReader{fill: byte(0xC3 + i)}
				defer func() {
					rand.Reader = saved
					_ = recover()
				}()
				secp256k1.NewScalar().Random()
			}()
		}
		if st.SleepMs > 0 {
			limit := 1500
			if os.Getenv("VERIF_TIER") == "thorough" {
				limit = 130000 // the thorough tier has one sequence with an idle period of more than two minutes
			}
			time.Sleep(time.Duration(min(st.SleepMs, limit)) * time.Millisecond)
		}
		copy(dstBuf, dstData) // the caller re-uses its buffers: same backing array, new content
		msgArg := msgData
		if st.MsgLen < hugeMsg {
			copy(msgBuf, msgData)
			msgArg = msgBuf[:len(msgData)]
		}
		if len(dstData) > 255 {
			oversize++
		}
		if len(dstData) == prevLen {
			inplace++
		}
		prevLen = len(dstData)
		got, pnc := callHash(st.Fn, msgArg, dstBuf[:len(dstData)])
		if pnc != nil {
			return gen.Fail("sequence/panic", "step %d: panic %v", i, pnc)
		}
		var want []byte
		switch st.Fn {
		case "scalar":
			want = ref.Bytes32(ref.HashToScalar(msgData, dstData))
		case "ro":
			p, _ := ref.HashToCurve(msgData, dstData)
			want = ref.Compress(p)
		default:
			p, _ := ref.EncodeToCurve(msgData, dstData)
			want = ref.Compress(p)
		}
		if !bytes.Equal(got, want) {
			return gen.Fail("sequence/stale-or-wrong-result", "step %d (%s, msg %d bytes, dst %d bytes, buffers re-used from earlier steps): got %x, want %x", i, st.Fn, len(msgData), len(dstData), got, want)
		}
	}
	o.ClassIf(oversize >= 2, "oversize-dst-twice")
	o.ClassIf(inplace >= 1, "same-length-overwrite")
	o.ClassIf(rejected >= 1, "after-recovered-panics")
	o.ClassIf(failedRandoms >= 1, "after-failed-random")
	o.NonTrivialIf(inplace >= 1)
	return nil
}

var c08seq = gen.Register(&gen.Check[caseH2CSeq]{
	Name:   "C08/sequence",
	Weight: 0.25,
	Gen:    genH2CSeq([]string{"ro", "nu"}),
	Run:    runH2CSeq,
	Fixed: func() []caseH2CSeq {
		return append(append(shiftedBoundarySequences([]string{"ro", "nu"}), twinSequences([]string{"ro", "nu"})...), append(bufferBoundarySequences([]string{"ro", "nu"}), hugeSequences([]string{"ro", "nu"})...)...)
	},
	Required: []string{"oversize-dst-twice", "same-length-overwrite", "huge-message", "after-recovered-panics", "after-failed-random"},
})


var c09seq = gen.Register(&gen.Check[caseH2CSeq]{
	Name:   "C09/sequence",
	Weight: 0.25,
	Gen:    genH2CSeq([]string{"scalar"}),
	Run:    runH2CSeq,
	Fixed: func() []caseH2CSeq {
		return append(append(shiftedBoundarySequences([]string{"scalar"}), twinSequences([]string{"scalar"})...), append(bufferBoundarySequences([]string{"scalar"}), hugeSequences([]string{"scalar"})...)...)
	},
	Required: []string{"oversize-dst-twice", "same-length-overwrite", "huge-message", "after-recovered-panics", "after-failed-random"},
})

