package props

import (
	"bytes"
	"encoding/hex"
	"fmt"
	"testing"

	"github.com/bytemare/secp256k1"
	"github.com/bytemare/secp256k1/verifharness/gen"
	"github.com/bytemare/secp256k1/verifharness/ref"
	"pgregory.net/rapid"
)

// C08: HashToGroup / EncodeToGroup conform to RFC 9380 for every message and DST.
// C09 (public-API half): HashToScalar is hash_to_field over the scalar field.

type caseH2C struct {
	Fn     string     `json:"fn"` // ro | nu | scalar
	Msg    string     `json:"msg"`
	Dst    string     `json:"dst"`
	NilMsg bool       `json:"nil_msg,omitempty"`
	NilDst bool       `json:"nil_dst,omitempty"`
	MsgLay gen.Layout `json:"msg_layout"`
	DstLay gen.Layout `json:"dst_layout"`
}

var (
	dstLens = []int{16, 255, 256, 257, 1, 300, 254, 1000, 2, 15, 17, 31, 32, 33, 49, 64, 128}
	msgLens = []int{0, 1, 3, 16, 55, 56, 63, 64, 65, 119, 120, 128, 512}
)

func genMsgDst(t *rapid.T) (msg, dst []byte) {
	if rapid.Bool().Draw(t, "msgPat") {
		msg = gen.Bytes(0, 0).Draw(t, "m0")
		n := rapid.SampledFrom(msgLens).Draw(t, "mlen")
		msg = rapid.SliceOfN(rapid.Byte(), n, n).Draw(t, "msg")
	} else {
		msg = gen.Bytes(0, 600).Draw(t, "msg")
	}
	switch rapid.IntRange(0, 3).Draw(t, "dstKind") {
	case 0:
		dst = gen.Bytes(1, 80).Draw(t, "dst")
	case 1:
		dst = gen.Bytes(200, 320).Draw(t, "dst")
	default:
		n := rapid.SampledFrom(dstLens).Draw(t, "dlen")
		dst = rapid.SliceOfN(rapid.Byte(), n, n).Draw(t, "dst")
	}
	return msg, dst
}

func genH2C(fns []string) func(t *rapid.T) caseH2C {
	return func(t *rapid.T) caseH2C {
		msg, dst := genMsgDst(t)
		c := caseH2C{Fn: rapid.SampledFrom(fns).Draw(t, "fn"), Msg: hex.EncodeToString(msg), Dst: hex.EncodeToString(dst),
			MsgLay: gen.LayoutGen().Draw(t, "ml"), DstLay: gen.LayoutGen().Draw(t, "dl")}
		switch gen.Pick(t, "special", 60) {
		case 57:
			c.Dst, c.NilDst = "", true
		case 58:
			c.Dst = ""
		case 59:
			c.Msg, c.NilMsg = "", true
		}
		return c
	}
}

func fixedH2C(fns []string) func() []caseH2C {
	return func() []caseH2C {
		var out []caseH2C
		for _, fn := range fns {
			for _, dl := range []int{1, 16, 254, 255, 256, 257, 1000} {
				for _, post := range []int{0, 1, 64} {
					out = append(out, caseH2C{Fn: fn, Msg: hex.EncodeToString([]byte("abc")), Dst: hex.EncodeToString(bytes.Repeat([]byte{'D'}, dl)), DstLay: gen.Layout{Post: post}})
				}
			}
			out = append(out, caseH2C{Fn: fn, Msg: "", Dst: "", NilDst: true}, caseH2C{Fn: fn, Msg: "00", Dst: ""},
				caseH2C{Fn: fn, NilMsg: true, Dst: hex.EncodeToString([]byte("QUUX-V01-CS02-with-secp256k1_XMD:SHA-256_SSWU_RO_"))})
		}
		return out
	}
}

// callHash runs the function under test, reporting a panic as a value.
func callHash(fn string, msg, dst []byte) (enc []byte, panicked any) {
	defer func() { panicked = recover() }()
	switch fn {
	case "ro":
		return secp256k1.HashToGroup(msg, dst).Encode(), nil
	case "nu":
		return secp256k1.EncodeToGroup(msg, dst).Encode(), nil
	default:
		return secp256k1.HashToScalar(msg, dst).Encode(), nil
	}
}

func runH2C(c caseH2C, o *gen.Obs) error {
	msgData, dstData := gen.HexBytes(c.Msg), gen.HexBytes(c.Dst)
	msg, _ := gen.Place(msgData, c.MsgLay)
	dst, _ := gen.Place(dstData, c.DstLay)
	if c.NilMsg {
		msg = nil
	}
	if c.NilDst {
		dst = nil
	}
	o.Class("fn:" + c.Fn)
	site := map[string]string{"ro": "HashToGroup", "nu": "EncodeToGroup", "scalar": "HashToScalar"}[c.Fn]
	got, pnc := callHash(c.Fn, msg, dst)
	if len(dstData) == 0 {
		o.Class("empty-dst")
		if pnc == nil {
			return gen.Fail(site+"/empty-dst-no-panic", "empty or nil DST did not panic; returned %x", got)
		}
		return nil
	}
	if pnc != nil {
		return gen.Fail(site+"/panic", "panic for msg=%d bytes, dst=%d bytes: %v", len(msgData), len(dstData), pnc)
	}
	o.NonTrivial()
	o.ClassIf(len(dstData) > 255, "dst>255")
	o.ClassIf(len(dstData) == 255, "dst=255")
	o.ClassIf(len(dstData) == 256, "dst=256")
	o.ClassIf(len(dstData) < 16, "dst<16")
	o.ClassIf(c.DstLay.Post > 0, "dst-spare-capacity")
	o.ClassIf(len(msgData) == 0, "msg-empty")
	o.ClassIf(len(msgData) > 64, "msg>1block")
	var want []byte
	switch c.Fn {
	case "scalar":
		want = ref.Bytes32(ref.HashToScalar(msgData, dstData))
	default:
		var (
			p  ref.Point
			tr ref.H2CTrace
		)
		if c.Fn == "ro" {
			p, tr = ref.HashToCurve(msgData, dstData)
		} else {
			p, tr = ref.EncodeToCurve(msgData, dstData)
		}
		want = ref.Compress(p)
		for i, st := range tr.Tr {
			o.Class(fmt.Sprintf("u%d:gx1square=%v,signflip=%v", i, st.Gx1Square, st.SignFlipped))
		}
	}
	if !bytes.Equal(got, want) {
		return gen.Fail(site+"/value", "%s(msg=%x, dst[%d]=%x) = %x, want %x", site, msgData, len(dstData), dstData, got, want)
	}
	// deterministic function of (msg, DST): fresh copies, different layout
	got2, pnc2 := callHash(c.Fn, append([]byte(nil), msgData...), append([]byte(nil), dstData...))
	if pnc2 != nil || !bytes.Equal(got2, got) {
		return gen.Fail(site+"/non-deterministic", "second call gave %x (panic %v), first %x", got2, pnc2, got)
	}
	if c.Fn != "scalar" {
		// the result is a valid group element
		if err := secp256k1.NewElement().Decode(got); err != nil {
			return gen.Fail(site+"/invalid-element", "result %x is rejected by Decode: %v", got, err)
		}
	}
	return nil
}

var c08 = gen.Register(&gen.Check[caseH2C]{
	Name:     "C08/hash2curve",
	Gen:      genH2C([]string{"ro", "nu"}),
	Fixed:    fixedH2C([]string{"ro", "nu"}),
	Run:      runH2C,
	Required: []string{"dst>255", "dst=255", "dst=256", "dst-spare-capacity", "empty-dst", "fn:ro", "fn:nu", "u0:gx1square=false,signflip=true", "u1:gx1square=true,signflip=false"},
})

func TestC08HashToCurve(t *testing.T) { c08.Execute(t) }

var c09api = gen.Register(&gen.Check[caseH2C]{
	Name:     "C09/hash2scalar",
	Gen:      genH2C([]string{"scalar"}),
	Fixed:    fixedH2C([]string{"scalar"}),
	Run:      runH2C,
	Required: []string{"dst>255", "dst=255", "dst=256", "empty-dst"},
})

func TestC09HashToScalar(t *testing.T) { c09api.Execute(t) }
