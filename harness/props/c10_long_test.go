package props

import (
	"bytes"
	"math/big"
	"testing"

	"github.com/bytemare/secp256k1"
	"github.com/bytemare/secp256k1/verifharness/gen"
	"github.com/bytemare/secp256k1/verifharness/ref"
	"pgregory.net/rapid"
)

// C10/long-lived: ONE variable is mutated tens of thousands of times (an accumulator, a running hash-chain value, a counter) and
// observed at checkpoints placed around every power of two of the number of mutations: whatever an object counts or stamps
// about its own history (revision numbers, use counters, generation tags) must not wrap into a wrong observation. The model
// is the closed form of the repeated operation (start + n*G, 2^n * start, (-1)^n start, s0 + n, s0 * 3^n ...).

type caseC10long struct {
	Kind  string `json:"kind"`  // "element" or "scalar"
	Start string `json:"start"` // element: comp, uncomp, base, h2g, mul; scalar: decode, setuint64, h2s, arith
	Op    string `json:"op"`    // element: add, sub, double, negate, addself; scalar: add, sub, mul, square
	N     int    `json:"n"`     // number of mutations
	K     string `json:"k"`     // seed value: the start is [K]G (elements) or K (scalars)
}

var (
	longElemStarts = []string{"comp", "uncomp", "base", "h2g", "mul"}
	longElemOps    = []string{"add", "sub", "double", "negate", "set-add"}
	longScalStarts = []string{"decode", "setuint64", "h2s", "arith"}
	longScalOps    = []string{"add", "sub", "mul", "square"}
)

func checkpoints(n int) map[int]bool {
	cp := map[int]bool{n: true, 1: true}
	for k := 8; k <= 30; k++ {
		for d := -1; d <= 1; d++ {
			if v := 1<<k + d; v <= n {
				cp[v] = true
			}
		}
	}
	return cp
}

var c10long = gen.Register(&gen.Check[caseC10long]{
	Name:   "C10/long-lived",
	Weight: 0.002,
	Gen: func(t *rapid.T) caseC10long {
		c := caseC10long{Kind: "element", K: gen.H(gen.NonZeroInt(ref.N).Draw(t, "k"))}
		if gen.Chance(t, "scalar", 1, 3) {
			c.Kind = "scalar"
			c.Start = longScalStarts[gen.Pick(t, "start", len(longScalStarts))]
			c.Op = longScalOps[gen.Pick(t, "op", len(longScalOps))]
		} else {
			c.Start = longElemStarts[gen.Pick(t, "start", len(longElemStarts))]
			c.Op = longElemOps[gen.Pick(t, "op", len(longElemOps))]
		}
		c.N = 1<<uint(8+gen.Pick(t, "log", 10)) + gen.Pick(t, "delta", 5) - 2
		return c
	},
	Fixed: func() []caseC10long {
		var out []caseC10long
		for i, st := range longElemStarts {
			for j, op := range longElemOps {
				n := 1<<16 + 2
				if (i+j)%5 == 0 {
					n = 1<<17 + 2
				}
				out = append(out, caseC10long{Kind: "element", Start: st, Op: op, N: n, K: "07"})
			}
		}
		for _, st := range longScalStarts {
			for _, op := range longScalOps {
				out = append(out, caseC10long{Kind: "scalar", Start: st, Op: op, N: 1<<17 + 2, K: "0123456789abcdef0123"})
			}
		}
		return out
	},
	Required: []string{"mutations>=2^16", "kind:element", "kind:scalar"},
	Run: func(c caseC10long, o *gen.Obs) error {
		o.Class("kind:" + c.Kind)
		o.ClassIf(c.N >= 1<<16, "mutations>=2^16")
		o.NonTrivialIf(c.N > 256)
		k := gen.B(c.K)
		cp := checkpoints(c.N)
		if c.Kind == "scalar" {
			return runLongScalar(c, k, cp)
		}
		return runLongElement(c, k, cp)
	},
})

func runLongElement(c caseC10long, k *big.Int, cp map[int]bool) error {
	g := ref.G()
	start := ref.Mul(k, g)
	e := secp256k1.NewElement()
	switch c.Start {
	case "comp":
		if err := e.Decode(ref.Compress(start)); err != nil {
			return &gen.Inconclusive{Msg: err.Error()}
		}
	case "uncomp":
		if err := e.Decode(ref.Uncompressed(start)); err != nil {
			return &gen.Inconclusive{Msg: err.Error()}
		}
	case "base":
		start = g
		e.Base()
	case "h2g":
		msg := ref.Bytes32(k)
		start, _ = ref.HashToCurve(msg, c10dst)
		e = secp256k1.HashToGroup(msg, c10dst)
	default:
		e.Base().Multiply(SV{Hex: gen.H(k)}.Build())
	}
	base := secp256k1.Base()
	other := secp256k1.NewElement()
	for i := 1; i <= c.N; i++ {
		switch c.Op {
		case "add":
			e.Add(base)
		case "sub":
			e.Subtract(base)
		case "double":
			e.Double()
		case "negate":
			e.Negate()
		default: // the variable is overwritten by Set and moved on: other = e; e = other + G
			other.Set(e)
			e.Set(other).Add(base)
		}
		if !cp[i] {
			continue
		}
		n := big.NewInt(int64(i))
		var want ref.Point
		switch c.Op {
		case "add", "set-add":
			want = ref.Add(start, ref.Mul(n, g))
		case "sub":
			want = ref.Sub(start, ref.Mul(n, g))
		case "double":
			want = ref.Mul(new(big.Int).Exp(big.NewInt(2), n, ref.N), start)
		default:
			want = start
			if i%2 == 1 {
				want = ref.Neg(start)
			}
		}
		wenc := ref.Compress(want)
		if enc := e.Encode(); !bytes.Equal(enc, wenc) {
			return gen.Fail("long-lived/element-encode", "after %d x %s from %s: Encode = %x, model %x", i, c.Op, c.Start, enc, wenc)
		}
		if !want.Inf {
			if unc := e.EncodeUncompressed(); !bytes.Equal(unc, ref.Uncompressed(want)) {
				return gen.Fail("long-lived/element-uncompressed", "after %d x %s from %s: EncodeUncompressed = %x, model %x", i, c.Op, c.Start, unc, ref.Uncompressed(want))
			}
		}
		if enc := e.Copy().Encode(); !bytes.Equal(enc, wenc) {
			return gen.Fail("long-lived/copy-encode", "after %d x %s from %s: Copy().Encode() = %x, model %x", i, c.Op, c.Start, enc, wenc)
		}
		fresh := secp256k1.NewElement()
		if err := fresh.Decode(wenc); err != nil {
			return &gen.Inconclusive{Msg: err.Error()}
		}
		if e.Equal(fresh) != 1 || fresh.Equal(e) != 1 {
			return gen.Fail("long-lived/element-equal", "after %d x %s from %s: not Equal to a fresh element of the model value %x", i, c.Op, c.Start, wenc)
		}
		if e.IsIdentity() != want.Inf {
			return gen.Fail("long-lived/is-identity", "after %d x %s from %s: IsIdentity = %v", i, c.Op, c.Start, e.IsIdentity())
		}
	}
	return nil
}

func runLongScalar(c caseC10long, k *big.Int, cp map[int]bool) error {
	start := new(big.Int).Set(k)
	var s *secp256k1.Scalar
	switch c.Start {
	case "decode":
		s = SV{Hex: gen.H(k)}.Build()
	case "setuint64":
		start = new(big.Int).SetUint64(k.Uint64())
		s = secp256k1.NewScalar().SetUInt64(k.Uint64())
	case "h2s":
		msg := ref.Bytes32(k)
		start = ref.HashToScalar(msg, c10dst)
		s = secp256k1.HashToScalar(msg, c10dst)
	default:
		s = provenance(k, 0)
	}
	three := secp256k1.NewScalar().SetUInt64(3)
	for i := 1; i <= c.N; i++ {
		switch c.Op {
		case "add":
			s.Add(three)
		case "sub":
			s.Subtract(three)
		case "mul":
			s.Multiply(three)
		default:
			s.Square()
		}
		if !cp[i] {
			continue
		}
		n := big.NewInt(int64(i))
		var want *big.Int
		switch c.Op {
		case "add":
			want = new(big.Int).Add(start, new(big.Int).Mul(n, big.NewInt(3)))
		case "sub":
			want = new(big.Int).Sub(start, new(big.Int).Mul(n, big.NewInt(3)))
		case "mul":
			want = new(big.Int).Mul(start, new(big.Int).Exp(big.NewInt(3), n, ref.N))
		default: // start^(2^i): the exponent is reduced mod n-1 (n is prime)
			ex := new(big.Int).Exp(big.NewInt(2), n, new(big.Int).Sub(ref.N, bigOne))
			want = new(big.Int).Exp(start, ex, ref.N)
			if start.Sign() == 0 {
				want = new(big.Int)
			}
		}
		want.Mod(want, ref.N)
		if err := checkScalar("long-lived/scalar", s, want); err != nil {
			return gen.Fail("long-lived/scalar", "after %d x %s from %s: %v", i, c.Op, c.Start, err)
		}
		fresh := SV{Hex: gen.H(want)}.Build()
		if s.Equal(fresh) != 1 || s.IsZero() != (want.Sign() == 0) || s.Copy().Equal(fresh) != 1 {
			return gen.Fail("long-lived/scalar-observers", "after %d x %s from %s: Equal/IsZero/Copy disagree with the model value %x", i, c.Op, c.Start, want)
		}
		if b := s.Bits(); uint(b[0]) != want.Bit(0) || uint(b[255]) != want.Bit(255) {
			return gen.Fail("long-lived/scalar-bits", "after %d x %s from %s: Bits disagree with the model value %x", i, c.Op, c.Start, want)
		}
	}
	return nil
}

func TestC10LongLived(t *testing.T) { c10long.Execute(t) }
