package props

import (
	"encoding/hex"
	"math/big"
	"testing"

	"github.com/bytemare/secp256k1/verifharness/gen"
	"github.com/bytemare/secp256k1/verifharness/pt"
	"github.com/bytemare/secp256k1/verifharness/ref"
)

// Native coverage-guided fuzz targets (thorough tier). Each decodes the fuzzer's bytes into the case type
// of an existing check and runs the same differential oracle; failures become ordinary replay files.

var fuzzPriors = []pt.Spec{
	{Base: pt.Base{Kind: "id"}},
	{Base: pt.Base{Kind: "g"}},
	{Base: pt.Base{Kind: "kg", K: 3}, Steps: []pt.Step{{Op: "dblsub"}}},
	{Base: pt.Base{Kind: "id"}, Steps: []pt.Step{{Op: "id:p-p", J: 1}}},
}

func FuzzElementDecode(f *testing.F) {
	g := ref.G()
	seeds := [][]byte{ref.Compress(g), ref.Compress(ref.Neg(g)), ref.Uncompressed(g), {0}, {}, uncomp(6, g.X, g.Y), uncomp(7, g.X, g.Y),
		comp(2, ref.P), comp(3, new(big.Int).Add(ref.P, bigOne)), comp(2, new(big.Int)), uncomp(4, new(big.Int), bigOne), uncomp(4, g.X, ref.P)}
	for _, q := range smallOnX[:6] {
		seeds = append(seeds, comp(byte(2+q.Y.Bit(0)), new(big.Int).Add(q.X, ref.P)), uncomp(4, new(big.Int).Add(q.X, ref.P), q.Y), ref.Compress(q))
	}
	for _, q := range smallOnY[:3] {
		seeds = append(seeds, uncomp(4, q.X, new(big.Int).Add(q.Y, ref.P)), ref.Uncompressed(q))
	}
	for i, s := range seeds {
		f.Add(s, uint8(i))
	}
	decs := []string{"decode", "compressed", "uncompressed", "unmarshal", "hex", "coordinates"}
	f.Fuzz(func(t *testing.T, data []byte, sel uint8) {
		c := caseC03{Decoder: decs[int(sel)%len(decs)], Prior: fuzzPriors[int(sel/8)%len(fuzzPriors)], Kind: "fuzz"}
		if c.Decoder == "coordinates" {
			if len(data) < 64 {
				return
			}
			data = data[len(data)-64:]
		}
		if len(data) > 200 {
			return
		}
		c.Data = hex.EncodeToString(data)
		if c.Decoder == "hex" {
			c.Text = c.Data
		}
		c03.FuzzOne(t, c)
	})
}

func FuzzScalarDecode(f *testing.F) {
	two256m1 := new(big.Int).Sub(new(big.Int).Lsh(bigOne, 256), bigOne)
	for i, v := range []*big.Int{new(big.Int), bigOne, nm1, ref.N, new(big.Int).Add(ref.N, bigOne), two256m1, new(big.Int).Lsh(bigOne, 255)} {
		f.Add(ref.Bytes32(v), uint8(i))
	}
	l := gen.ToLimbs(ref.N)
	for i := range l {
		m := l
		m[i]--
		f.Add(ref.Bytes32(gen.FromLimbs(m)), uint8(i))
		m[i] += 2
		f.Add(ref.Bytes32(gen.FromLimbs(m)), uint8(i))
	}
	f.Add([]byte{}, uint8(0))
	f.Add(make([]byte, 31), uint8(1))
	f.Add(make([]byte, 33), uint8(2))
	vias := []string{"decode", "unmarshal", "hex"}
	f.Fuzz(func(t *testing.T, data []byte, sel uint8) {
		if len(data) > 100 {
			return
		}
		c := caseC07dec{Data: hex.EncodeToString(data), Via: vias[int(sel)%len(vias)], Prior: SV{Hex: gen.H(big.NewInt(5))}}
		if c.Via == "hex" {
			c.Text = c.Data
		}
		c07dec.FuzzOne(t, c)
	})
}

func FuzzHashToCurve(f *testing.F) {
	f.Add([]byte{}, []byte("QUUX-V01-CS02-with-secp256k1_XMD:SHA-256_SSWU_RO_"), uint8(0))
	f.Add([]byte("abc"), []byte("QUUX-V01-CS02-with-secp256k1_XMD:SHA-256_SSWU_NU_"), uint8(1))
	f.Add([]byte("abcdef0123456789"), make([]byte, 255), uint8(2))
	f.Add(make([]byte, 64), make([]byte, 256), uint8(0))
	f.Add(make([]byte, 55), make([]byte, 257), uint8(1))
	f.Add([]byte("x"), []byte{}, uint8(0))
	fns := []string{"ro", "nu", "scalar"}
	f.Fuzz(func(t *testing.T, msg, dst []byte, sel uint8) {
		if len(msg) > 2000 || len(dst) > 2000 {
			return
		}
		c := caseH2C{Fn: fns[int(sel)%3], Msg: hex.EncodeToString(msg), Dst: hex.EncodeToString(dst),
			DstLay: gen.Layout{Post: int(sel/3) % 3}, MsgLay: gen.Layout{Pre: int(sel/9) % 2}}
		if c.Fn == "scalar" {
			c09api.FuzzOne(t, c)
		} else {
			c08.FuzzOne(t, c)
		}
	})
}

func FuzzScalarOps(f *testing.F) {
	for i, v := range []*big.Int{new(big.Int), bigOne, nm1, new(big.Int).Rsh(ref.N, 1), new(big.Int).Lsh(bigOne, 255), rN, rNInv} {
		f.Add(ref.Bytes32(v), ref.Bytes32(nm1), uint8(i), uint8(i))
		f.Add(ref.Bytes32(nm1), ref.Bytes32(v), uint8(i+3), uint8(0))
	}
	f.Fuzz(func(t *testing.T, a, b []byte, op, flags uint8) {
		if len(a) != 32 || len(b) != 32 {
			return
		}
		va, vb := new(big.Int).Mod(ref.OS2IP(a), ref.N), new(big.Int).Mod(ref.OS2IP(b), ref.N)
		c := caseC06{Op: c06ops[int(op)%len(c06ops)], S: SV{Hex: gen.H(va), Mont: flags&1 != 0}, T: SV{Hex: gen.H(vb), Mont: flags&2 != 0},
			Alias: flags&12 == 4, NilT: flags&12 == 8, U: ref.OS2IP(b[24:]).Uint64()}
		c06.FuzzOne(t, c)
		c13cmp.FuzzOne(t, caseC13cmp{S: c.S, T: c.T, Rel: "fuzz"})
		c14.FuzzOne(t, caseC14{S: c.S})
	})
}
