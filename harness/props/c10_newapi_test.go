package props

import (
	"testing"

	"github.com/bytemare/secp256k1/verifharness/gen"
	"github.com/bytemare/secp256k1/verifharness/pt"
)

// C10/new-api: "any finite sequence of API calls" includes calls of functions the tree under test ADDED. Every exported method of
// *Element and *Scalar that the baseline API does not have is called (reflection, arguments built from the parameter types, panics
// recovered) on several receivers; see pt.ProbeNewAPI for what must hold afterwards. On a tree without new methods there is
// nothing to do. Round 0 also runs pt.ProbeFollowUps: every sequence of up to three known operations on an object that met a new method. The same probe runs before one case in eight of the other checks (hostileCaller), so that whatever a new
// function leaves behind in the package also meets the oracles of the known functions.

type caseNewAPI struct {
	Round int `json:"round"`
}

var c10newapi = gen.Register(&gen.Check[caseNewAPI]{
	Name:  "C10/new-api",
	Fixed: func() []caseNewAPI { return []caseNewAPI{{0}, {1}, {2}} },
	Run: func(c caseNewAPI, o *gen.Obs) error {
		e, s := pt.NewMethods()
		o.ClassIf(len(e)+len(s) == 0, "no-new-methods")
		o.ClassIf(len(e)+len(s) > 0, "new-methods")
		o.NonTrivialIf(len(e)+len(s) > 0)
		if msg := pt.ProbeNewAPI(1); msg != "" {
			return gen.Fail("new-api/invariant", "%s", msg)
		}
		if c.Round == 0 {
			if msg := pt.ProbeFollowUps(); msg != "" {
				return gen.Fail("new-api/history", "%s", msg)
			}
			if msg := pt.ProbeReaders(); msg != "" {
				return gen.Fail("new-api/reader-chunking", "%s", msg)
			}
		}
		return nil
	},
})

func TestC10NewAPI(t *testing.T) { c10newapi.Execute(t) }
