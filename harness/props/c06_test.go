package props

import (
	"math/big"
	"testing"

	"github.com/bytemare/secp256k1"
	"github.com/bytemare/secp256k1/verifharness/gen"
	"github.com/bytemare/secp256k1/verifharness/ref"
	"pgregory.net/rapid"
)

// C06: scalar arithmetic is exact arithmetic mod n, for all operands, aliasing and nil conventions.

type caseC06 struct {
	Op    string `json:"op"`
	S     SV     `json:"s"`
	T     SV     `json:"t"`
	Alias bool   `json:"alias,omitempty"` // the operand is the receiver itself
	NilT  bool   `json:"nil_t,omitempty"`
	U     uint64 `json:"u,omitempty"`
	// Prev: the same operation first runs on other objects, with the receiver value replaced by this look-alike of S.
	Prev *SV `json:"prev,omitempty"`
}

// execOp runs op without looking at the result (the "previous call" of a case).
func execOp(op string, s, arg *secp256k1.Scalar, u uint64) {
	switch op {
	case "add":
		s.Add(arg)
	case "sub":
		s.Subtract(arg)
	case "mul":
		s.Multiply(arg)
	case "square":
		s.Square()
	case "invert":
		s.Invert()
	case "pow":
		s.Pow(arg)
	case "setuint64":
		s.SetUInt64(u ^ 1)
	case "set":
		s.Set(arg)
	case "copy":
		_ = s.Copy()
	}
}

// the multi-limb carry chains live in mul and square: they get a larger share of the cases
var c06ops = []string{"add", "sub", "mul", "square", "invert", "pow", "setuint64", "zero", "one", "minusone", "set", "copy", "mul", "square", "mul", "square", "add", "sub"}

var (
	bigOne = big.NewInt(1)
	nm1    = new(big.Int).Sub(ref.N, bigOne)
)

func mkC06(op string, s, t *big.Int) caseC06 {
	return caseC06{Op: op, S: SV{Hex: gen.H(s)}, T: SV{Hex: gen.H(t)}}
}

var c06 = gen.Register(&gen.Check[caseC06]{
	Name: "C06/ops",
	Gen: func(t *rapid.T) caseC06 {
		c := caseC06{Op: rapid.SampledFrom(c06ops).Draw(t, "op"), S: SVGen().Draw(t, "s"), T: SVGen().Draw(t, "t")}
		switch rapid.IntRange(0, 9).Draw(t, "special") {
		case 0:
			c.Alias = true
		case 1:
			c.NilT = true
		}
		if c.Op == "setuint64" {
			if rapid.Bool().Draw(t, "upat") {
				c.U = gen.Limb().Draw(t, "u")
			} else {
				c.U = gen.U64(t, "u")
			}
		}
		if c.Op == "pow" && rapid.IntRange(0, 3).Draw(t, "smallexp") == 0 {
			c.T = SV{Hex: gen.H(big.NewInt(int64(rapid.IntRange(0, 5).Draw(t, "e"))))}
		}
		if gen.Chance(t, "prev", 1, 4) {
			r := RelatedSV(t, c.S)
			c.Prev = &r
		}
		return c
	},
	Fixed: func() []caseC06 {
		z, two := big.NewInt(0), big.NewInt(2)
		half := new(big.Int).Rsh(ref.N, 1)
		out := []caseC06{
			mkC06("add", nm1, bigOne), mkC06("add", nm1, nm1), mkC06("add", half, new(big.Int).Add(half, bigOne)),
			mkC06("sub", z, bigOne), mkC06("sub", bigOne, nm1), mkC06("mul", nm1, nm1), mkC06("square", nm1, z),
			mkC06("invert", z, z), mkC06("invert", bigOne, z), mkC06("invert", nm1, z), mkC06("invert", two, z),
			mkC06("pow", z, z), mkC06("pow", z, bigOne), mkC06("pow", z, two), mkC06("pow", two, z), mkC06("pow", two, nm1),
			mkC06("pow", nm1, nm1), mkC06("pow", two, new(big.Int).Lsh(bigOne, 255)),
			mkC06("minusone", z, z), mkC06("one", two, z), mkC06("zero", two, z),
			{Op: "setuint64", S: SV{Hex: gen.H(two)}, U: ^uint64(0)}, {Op: "setuint64", S: SV{Hex: gen.H(two)}, U: 0},
		}
		// exhaustive: every scalar whose four Montgomery limbs are taken from LimbPatterns (10^4 values, those < n kept),
		// through the one-operand operations and the aliased two-operand ones
		for _, m := range gen.WordProducts(new(big.Int), 64, func(w, mask uint64) []uint64 { return gen.LimbPatterns }) {
			if m.Cmp(ref.N) >= 0 {
				continue
			}
			sv := SV{Hex: gen.H(m), Mont: true}
			out = append(out, caseC06{Op: "square", S: sv, T: sv}, caseC06{Op: "mul", S: sv, T: sv, Alias: true}, caseC06{Op: "add", S: sv, T: sv, Alias: true})
		}
		for _, v := range gen.DictFixed(ref.N, gen.DictStride()) {
			sv := SV{Hex: gen.H(v)}
			out = append(out, caseC06{Op: "invert", S: sv, T: sv}, caseC06{Op: "square", S: sv, T: sv}, caseC06{Op: "mul", S: sv, T: SV{Hex: gen.H(v), Mont: true}},
				caseC06{Op: "invert", S: SV{Hex: gen.H(v), Mont: true}, T: sv},
				caseC06{Op: "pow", S: sv, T: SV{Hex: "13"}}, caseC06{Op: "pow", S: sv, T: SV{Hex: gen.H(new(big.Int).Rsh(ref.N, 1))}}, caseC06{Op: "pow", S: SV{Hex: "13"}, T: sv})
		}
		for _, op := range []string{"add", "sub", "mul", "pow", "set"} {
			c := mkC06(op, big.NewInt(7), two)
			c.NilT = true
			out = append(out, c)
			c2 := mkC06(op, nm1, two)
			c2.Alias = true
			out = append(out, c2)
		}
		return out
	},
	Required: []string{"mont-operand", "alias", "nil", "wrap:add", "wrap:sub", "op:invert", "op:pow", "after-look-alike"},
	Run: func(c caseC06, o *gen.Obs) error {
		hostileCaller()
		s, t := c.S.Build(), c.T.Build()
		vs, vt := c.S.Value(), c.T.Value()
		arg, varg := t, vt
		if c.Alias {
			arg, varg = s, vs
		}
		if c.NilT {
			arg, varg = nil, nil
		}
		o.Class("op:" + c.Op)
		o.ClassIf(c.S.Mont || c.T.Mont, "mont-operand")
		o.ClassIf(c.Alias, "alias")
		o.ClassIf(c.NilT, "nil")
		o.NonTrivialIf(vs.Cmp(bigOne) > 0 || vt.Cmp(bigOne) > 0 || c.U > 1)
		if c.Prev != nil {
			execOp(c.Op, c.Prev.Build(), c.T.Build(), c.U)
			o.Class("after-look-alike")
		}
		t0 := t.S
		var (
			got  *secp256k1.Scalar
			want *big.Int
			recv = s
		)
		switch c.Op {
		case "add":
			got = s.Add(arg)
			if arg == nil {
				want = vs
			} else {
				sum := new(big.Int).Add(vs, varg)
				o.ClassIf(sum.Cmp(ref.N) >= 0, "wrap:add")
				want = sum.Mod(sum, ref.N)
			}
		case "sub":
			got = s.Subtract(arg)
			if arg == nil {
				want = vs
			} else {
				o.ClassIf(vs.Cmp(varg) < 0, "wrap:sub")
				want = new(big.Int).Mod(new(big.Int).Sub(vs, varg), ref.N)
			}
		case "mul":
			got = s.Multiply(arg)
			if arg == nil {
				want = new(big.Int)
			} else {
				want = new(big.Int).Mod(new(big.Int).Mul(vs, varg), ref.N)
			}
		case "square":
			got = s.Square()
			want = new(big.Int).Mod(new(big.Int).Mul(vs, vs), ref.N)
		case "invert":
			got = s.Invert()
			if vs.Sign() == 0 {
				want = new(big.Int)
			} else {
				want = new(big.Int).ModInverse(vs, ref.N)
			}
		case "pow":
			got = s.Pow(arg)
			if arg == nil || varg.Sign() == 0 {
				want = big.NewInt(1)
			} else {
				want = new(big.Int).Exp(vs, varg, ref.N)
			}
		case "setuint64":
			got = s.SetUInt64(c.U)
			want = new(big.Int).SetUint64(c.U)
		case "zero":
			got, want = s.Zero(), new(big.Int)
		case "one":
			got, want = s.One(), big.NewInt(1)
		case "minusone":
			got, want = s.MinusOne(), nm1
		case "set":
			got = s.Set(arg)
			if arg == nil {
				want = new(big.Int)
			} else {
				want = varg
			}
		case "copy":
			cp := s.Copy()
			if cp == s {
				return gen.Fail("Copy/same-pointer", "Copy returned the receiver")
			}
			if e := checkScalar("Copy", cp, vs); e != nil {
				return e
			}
			cp.Add(secp256k1.NewScalar().One())
			got, want = s, vs
		default:
			panic("unknown op " + c.Op)
		}
		if got != recv {
			return gen.Fail(c.Op+"/return", "did not return the receiver")
		}
		if e := checkScalar(c.Op, s, want); e != nil {
			return gen.Fail(c.Op, "s=%x t=%x alias=%v nil=%v u=%d: %v", vs, vt, c.Alias, c.NilT, c.U, e)
		}
		if c.Op == "invert" && vs.Sign() != 0 {
			// s * s^-1 = 1 with the implementation's own multiplication
			chk := c.S.Build()
			chk.Multiply(s)
			if e := checkScalar("invert/product", chk, bigOne); e != nil {
				return e
			}
		}
		if t.S != t0 {
			return gen.Fail(c.Op+"/mutates-operand", "the non-receiver operand changed")
		}
		return nil
	},
})

func TestC06Ops(t *testing.T) { c06.Execute(t) }
