package props

import (
	"bytes"
	"encoding/hex"
	"fmt"
	"math/big"
	"runtime/debug"
	"testing"

	"github.com/bytemare/secp256k1"
	"github.com/bytemare/secp256k1/verifharness/gen"
	"github.com/bytemare/secp256k1/verifharness/ref"
	"pgregory.net/rapid"
)

// C15/read-only-arguments: "never writes to caller-owned memory" includes writes that are undone before the call returns - a
// before/after comparison cannot see those, but the memory can tell: every byte-slice argument is placed in a READ-ONLY mapping
// (gen.ReadOnly: what key material in a protected mapping, a zero-copy view of a string or a mapped file is to a real caller),
// at the start or at the very end of it. A write faults; with debug.SetPanicOnFault the fault becomes a panic of the calling
// goroutine, which is reported as the violation (the results are compared with the model as well).

type caseC15ro struct {
	Call  string `json:"call"` // e.decode, e.unmarshal, e.compressed, e.uncompressed, s.decode, s.unmarshal, ro, nu, scalar
	In    string `json:"in"`   // hex: the encoding / the message
	Dst   string `json:"dst,omitempty"`
	AtEnd bool   `json:"at_end,omitempty"`
}

var roCalls = []string{"e.decode", "e.unmarshal", "e.compressed", "e.uncompressed", "s.decode", "s.unmarshal", "ro", "nu", "scalar"}

func roInputs(call string) [][]byte {
	g2 := ref.Double(ref.G())
	switch call[0] {
	case 'e':
		return [][]byte{ref.Compress(g2), ref.Uncompressed(g2), {0}, ref.Compress(ref.Neg(g2)), append([]byte{2}, ref.Bytes32(ref.P)...), {}, bytes.Repeat([]byte{4}, 65)}
	case 's':
		return [][]byte{ref.Bytes32(big.NewInt(7)), ref.Bytes32(new(big.Int).Sub(ref.N, big.NewInt(1))), ref.Bytes32(ref.N), make([]byte, 32), {}, bytes.Repeat([]byte{0xff}, 33)}
	}
	return [][]byte{[]byte("abc"), {}, bytes.Repeat([]byte{'m'}, 200), bytes.Repeat([]byte{0}, 64)}
}

var c15ro = gen.Register(&gen.Check[caseC15ro]{
	Name:   "C15/read-only-arguments",
	Weight: 0.1,
	Gen: func(t *rapid.T) caseC15ro {
		c := caseC15ro{Call: rapid.SampledFrom(roCalls).Draw(t, "call"), AtEnd: rapid.Bool().Draw(t, "atEnd")}
		ins := roInputs(c.Call)
		in := ins[rapid.IntRange(0, len(ins)-1).Draw(t, "in")]
		if gen.Chance(t, "random", 1, 3) {
			in = gen.RandBytes(t, "bytes", len(in))
		}
		c.In = hex.EncodeToString(in)
		if c.Call == "ro" || c.Call == "nu" || c.Call == "scalar" {
			c.Dst = hex.EncodeToString(rapid.SliceOfN(rapid.Byte(), 1, 300).Draw(t, "dst"))
		}
		return c
	},
	Fixed: func() []caseC15ro {
		var out []caseC15ro
		for _, call := range roCalls {
			for i, in := range roInputs(call) {
				c := caseC15ro{Call: call, In: hex.EncodeToString(in), AtEnd: i%2 == 0}
				if call == "ro" || call == "nu" || call == "scalar" {
					c.Dst = hex.EncodeToString([]byte("VERIF-C15-read-only-dst"))
					out = append(out, caseC15ro{Call: call, In: c.In, Dst: hex.EncodeToString(bytes.Repeat([]byte{'D'}, 300)), AtEnd: !c.AtEnd})
				}
				out = append(out, c)
			}
		}
		return out
	},
	Required: []string{"read-only:input", "read-only:dst"},
	Run: func(c caseC15ro, o *gen.Obs) error {
		in, dst := gen.HexBytes(c.In), gen.HexBytes(c.Dst)
		roIn, rel1 := gen.ReadOnly(in, c.AtEnd)
		defer rel1()
		if roIn == nil {
			return &gen.Inconclusive{Msg: "no read-only mapping on this platform"}
		}
		var roDst []byte
		if len(dst) > 0 {
			var rel2 func()
			roDst, rel2 = gen.ReadOnly(dst, !c.AtEnd)
			defer rel2()
			if roDst == nil {
				return &gen.Inconclusive{Msg: "no read-only mapping on this platform"}
			}
			o.Class("read-only:dst")
		}
		o.Class("read-only:input")
		o.Class("call:" + c.Call)
		o.NonTrivial()
		var (
			got    []byte
			err    error
			fault  any
			isHash bool
		)
		func() {
			old := debug.SetPanicOnFault(true)
			defer debug.SetPanicOnFault(old)
			defer func() { fault = recover() }()
			switch c.Call {
			case "e.decode", "e.unmarshal", "e.compressed", "e.uncompressed":
				e := secp256k1.NewElement()
				switch c.Call {
				case "e.decode":
					err = e.Decode(roIn)
				case "e.unmarshal":
					err = e.UnmarshalBinary(roIn)
				case "e.compressed":
					err = e.DecodeCompressed(roIn)
				default:
					err = e.DecodeUncompressed(roIn)
				}
				got = e.Encode()
			case "s.decode", "s.unmarshal":
				s := secp256k1.NewScalar()
				if c.Call == "s.decode" {
					err = s.Decode(roIn)
				} else {
					err = s.UnmarshalBinary(roIn)
				}
				got = s.Encode()
			default:
				isHash = true
				got, fault = callHash(c.Call, roIn, roDst)
				if fault != nil {
					panic(fault)
				}
			}
		}()
		if fault != nil {
			return gen.Fail(c.Call+"/writes-read-only-argument", "%s faulted on an argument that lives in read-only memory (input %d bytes, dst %d bytes): %v", c.Call, len(in), len(dst), fault)
		}
		// the values, against the model (a decoder that rejects leaves the fresh receiver alone)
		switch {
		case isHash:
			var want []byte
			switch c.Call {
			case "scalar":
				want = ref.Bytes32(ref.HashToScalar(in, dst))
			case "ro":
				p, _ := ref.HashToCurve(in, dst)
				want = ref.Compress(p)
			default:
				p, _ := ref.EncodeToCurve(in, dst)
				want = ref.Compress(p)
			}
			if !bytes.Equal(got, want) {
				return gen.Fail(c.Call+"/read-only-wrong-result", "%s on read-only arguments = %x, want %x", c.Call, got, want)
			}
		case c.Call[0] == 's':
			v := new(big.Int).SetBytes(in)
			ok := len(in) == 32 && v.Cmp(ref.N) < 0
			if ok != (err == nil) || (ok && !bytes.Equal(got, in)) {
				return gen.Fail(c.Call+"/read-only-wrong-result", "%s(%x) on a read-only argument: err=%v value %x", c.Call, in, err, got)
			}
		default:
			form := map[string]ref.Form{"e.decode": ref.FormAny, "e.unmarshal": ref.FormAny, "e.compressed": ref.FormCompressed, "e.uncompressed": ref.FormUncompressed}[c.Call]
			p, reason := ref.Decode(form, in)
			if (reason == ref.ReasonOK) != (err == nil) || (err == nil && !bytes.Equal(got, ref.Compress(p))) {
				return gen.Fail(c.Call+"/read-only-wrong-result", "%s(%x) on a read-only argument: err=%v value %x, model %s", c.Call, in, err, got, fmt.Sprint(reason))
			}
		}
		return nil
	},
})

func TestC15ReadOnly(t *testing.T) { c15ro.Execute(t) }
