package props

import (
	"bytes"
	"encoding"
	"encoding/base64"
	"encoding/gob"
	"encoding/hex"
	"encoding/json"
	"fmt"
	"math/big"
	"strings"
	"sync"
	"testing"

	"github.com/bytemare/secp256k1"
	"github.com/bytemare/secp256k1/verifharness/gen"
	"github.com/bytemare/secp256k1/verifharness/ref"
	"pgregory.net/rapid"
)

// C07: scalar encodings are canonical 32-byte big-endian; decoders accept exactly 32 bytes < n.

type caseC07dec struct {
	Data string `json:"data"`           // hex of the byte string presented
	Via  string `json:"via"`            // decode | unmarshal | hex
	Text string `json:"text,omitempty"` // for via=hex: the literal string (may be malformed hex)
	// TextHex: the same as hex of the raw bytes (strings that are not valid UTF-8 do not survive JSON)
	TextHex string `json:"text_hex,omitempty"`
	// Huge > 0: the input is Data followed by zeros up to Huge bytes in total (2^32 + 32 ...): 64-bit platforms only
	Huge  int64      `json:"huge,omitempty"`
	Prior SV         `json:"prior"`           // receiver before the call
	Nil   bool       `json:"nilin,omitempty"` // pass a nil slice instead of an empty one
	Lay   gen.Layout `json:"layout"`          // where the input sits in its backing array (offset / alignment, spare capacity)
}

func genScalarBytes(t *rapid.T) []byte {
	switch gen.Pick(t, "bytesKind", 11) {
	case 10: // a valid encoding in ANOTHER FORMAT handed to the binary decoders: its hex text (upper or lower case, with 0x), base64,
		// decimal digits; what a "be liberal in what you accept" fallback would swallow
		v := ref.Bytes32(gen.Int(ref.N).Draw(t, "tv"))
		switch gen.Pick(t, "otherFormat", 5) {
		case 0:
			return []byte(hex.EncodeToString(v))
		case 1:
			return []byte(strings.ToUpper(hex.EncodeToString(v)))
		case 2:
			return []byte("0x" + hex.EncodeToString(v))
		case 3:
			return []byte(base64.StdEncoding.EncodeToString(v))
		default:
			return []byte(new(big.Int).SetBytes(v).String())
		}
	case 8: // n with several 64-bit limbs perturbed at once
		return ref.Bytes32(gen.PerturbWords(t, ref.N, 64))
	case 9: // the same at 32-bit granularity
		return ref.Bytes32(gen.PerturbWords(t, ref.N, 32))
	case 0: // valid canonical
		return ref.Bytes32(gen.Int(ref.N).Draw(t, "v"))
	case 1: // n + small / n - small
		d := int64(rapid.IntRange(-3, 3).Draw(t, "d"))
		return ref.Bytes32(new(big.Int).Add(ref.N, big.NewInt(d)))
	case 2: // n +- 2^k
		k := uint(rapid.IntRange(0, 255).Draw(t, "k"))
		v := new(big.Int).Lsh(big.NewInt(1), k)
		if rapid.Bool().Draw(t, "neg") {
			v.Sub(ref.N, v)
		} else {
			v.Add(ref.N, v)
		}
		if v.Sign() < 0 || v.BitLen() > 256 {
			v = new(big.Int).Sub(new(big.Int).Lsh(big.NewInt(1), 256), big.NewInt(1))
		}
		return ref.Bytes32(v)
	case 3: // n with one limb replaced
		l := gen.ToLimbs(ref.N)
		i := rapid.IntRange(0, 3).Draw(t, "limb")
		switch rapid.IntRange(0, 4).Draw(t, "how") {
		case 0:
			l[i] = 0
		case 1:
			l[i]++
		case 2:
			l[i]--
		case 3:
			l[i] = ^uint64(0)
		default:
			l[i] = gen.Limb().Draw(t, "nl")
		}
		return ref.Bytes32(gen.FromLimbs(l))
	case 4: // high values
		v := gen.Uniform256().Draw(t, "r")
		v.SetBit(v, 255, 1)
		for i := 128; i < 255; i++ {
			v.SetBit(v, i, 1)
		}
		return ref.Bytes32(v)
	case 5: // wrong length, derived from a valid encoding
		b := ref.Bytes32(gen.Int(ref.N).Draw(t, "v"))
		switch rapid.IntRange(0, 3).Draw(t, "len") {
		case 0:
			return b[:31]
		case 1:
			return append(b, 0)
		case 2:
			return append([]byte{0}, b...)
		default:
			return b[:rapid.IntRange(0, 31).Draw(t, "cut")]
		}
	case 6:
		return gen.Bytes(0, 80).Draw(t, "rnd")
	default:
		return gen.RandBytes(t, "rnd32", 32)
	}
}

func isHex(s string) bool {
	if len(s)%2 != 0 {
		return false
	}
	for _, r := range s {
		switch {
		case r >= '0' && r <= '9', r >= 'a' && r <= 'f', r >= 'A' && r <= 'F':
		default:
			return false
		}
	}
	return true
}

var (
	errMu      sync.Mutex
	errByClass = map[string]map[string]bool{}
)

// errorClassDistinct records the error texts seen per rejection class and demands that no text is shared between
// two classes ("rejected with their distinct errors"); the texts themselves and their constancy are not demanded.
func errorClassDistinct(class, text string) error {
	errMu.Lock()
	defer errMu.Unlock()
	for k, v := range errByClass {
		if k != class && v[text] {
			return gen.Fail("Decode/error-not-distinct", "classes %s and %s share the error %q", k, class, text)
		}
	}
	if errByClass[class] == nil {
		errByClass[class] = map[string]bool{}
	}
	if len(errByClass[class]) < 64 {
		errByClass[class][text] = true
	}
	return nil
}

var c07dec = gen.Register(&gen.Check[caseC07dec]{
	Name: "C07/decode",
	Gen: func(t *rapid.T) caseC07dec {
		data := genScalarBytes(t)
		c := caseC07dec{Data: hex.EncodeToString(data), Prior: SVGen().Draw(t, "prior")}
		c.Via = rapid.SampledFrom([]string{"decode", "decode", "unmarshal", "hex"}).Draw(t, "via")
		if c.Via == "hex" {
			if k := gen.Pick(t, "textDecoder", 6); k < 2 {
				c.Via = []string{"text", "json"}[k]
			}
			txt := c.Data
			switch gen.Pick(t, "hexKind", 10) {
			case 8, 9: // what "lenient" parsers tolerate around a hex string: prefixes, suffixes, quotes, white space
				deco := [][2]string{{"0x", ""}, {"0X", ""}, {"", "\n"}, {" ", ""}, {"", " "}, {"\"", "\""}, {"#", ""}, {"\\x", ""}, {"", "h"}, {"0x", "\n"}, {"+", ""}, {"", "\x00"}, {"\ufeff", ""}, {"", "\r\n"}}[gen.Pick(t, "hexDeco", 14)]
				txt = deco[0] + txt + deco[1]
			case 0:
				txt = strings.ToUpper(txt)
			case 1: // mixed case
				b := []byte(txt)
				for i := range b {
					if i%3 == 0 {
						b[i] = strings.ToUpper(string(b[i]))[0]
					}
				}
				txt = string(b)
			case 4: // two hex digits replaced by one 2-byte rune (same byte length) whose low code-point byte is a hex digit
				if len(txt) >= 2 {
					i := 2 * rapid.IntRange(0, len(txt)/2-1).Draw(t, "upos")
					txt = txt[:i] + rapid.SampledFrom([]string{"\u0130", "\u0141", "\u0166", "\u0361"}).Draw(t, "urune") + txt[i+2:]
				}
			case 5: // three hex digits replaced by one 3-byte rune (keeps the byte length)
				if len(txt) >= 4 {
					i := rapid.IntRange(0, len(txt)-3).Draw(t, "upos3")
					txt = txt[:i] + rapid.SampledFrom([]string{"\u3066", "\u3041", "\uff10"}).Draw(t, "urune3") + txt[i+3:]
				}
			case 2: // odd length
				txt += "0"
			case 3: // a non-hex rune
				if len(txt) > 0 {
					i := rapid.IntRange(0, len(txt)-1).Draw(t, "pos")
					txt = txt[:i] + rapid.SampledFrom([]string{"g", "x", " ", "-", "é"}).Draw(t, "rune") + txt[i+1:]
				}
			}
			c.Text = txt
		}
		if len(data) == 0 {
			c.Nil = rapid.Bool().Draw(t, "nil")
		} else if gen.Chance(t, "interior", 1, 3) {
			c.Lay = gen.Layout{Pre: rapid.IntRange(1, 15).Draw(t, "pre"), Post: rapid.SampledFrom([]int{0, 1, 7, 64}).Draw(t, "post"), Fill: gen.Pick(t, "fill", gen.NumFills)}
			if gen.Chance(t, "tail", 1, 4) {
				c.Lay.Tail, c.Lay.Post = true, 0
			}
		}
		return c
	},
	Fixed: func() []caseC07dec {
		p := SV{Hex: gen.H(big.NewInt(5))}
		mk := func(b []byte, via string) caseC07dec {
			c := caseC07dec{Data: hex.EncodeToString(b), Via: via, Prior: p}
			if isTextVia(via) {
				c.Text = c.Data
			}
			return c
		}
		max := new(big.Int).Sub(new(big.Int).Lsh(big.NewInt(1), 256), big.NewInt(1))
		var out []caseC07dec
		for _, via := range []string{"decode", "unmarshal"} { // the hex TEXT of valid encodings handed to the binary decoders
			for _, v := range []*big.Int{big.NewInt(0xC07), new(big.Int).Sub(ref.N, big.NewInt(7)), new(big.Int)} {
				txt := hex.EncodeToString(ref.Bytes32(v))
				out = append(out, mk([]byte(txt), via), mk([]byte(strings.ToUpper(txt)), via), mk([]byte("0x"+txt), via), mk([]byte(txt[:32]), via))
			}
		}
		for _, via := range []string{"decode", "unmarshal"} {
			for _, base := range []int64{1 << 32, 1 << 33} {
				out = append(out, caseC07dec{Data: hex.EncodeToString(ref.Bytes32(big.NewInt(0xC07))), Via: via, Prior: p, Huge: base + 32})
			}
		}
		// every byte value at a few positions of a valid hex string (what a hand-rolled hex digit test lets through)
		for _, via := range []string{"hex", "text"} {
			txt := hex.EncodeToString(ref.Bytes32(big.NewInt(0x1234567)))
			for _, pos := range []int{0, 1, 31, len(txt) - 2, len(txt) - 1} {
				for b := 0; b < 256; b++ {
					if byte(b) == txt[pos] {
						continue
					}
					mut := txt[:pos] + string([]byte{byte(b)}) + txt[pos+1:]
					c := caseC07dec{Via: via, Prior: p, TextHex: hex.EncodeToString([]byte(mut))}
					if isHex(mut) {
						d, _ := hex.DecodeString(mut)
						c.Data = hex.EncodeToString(d)
					}
					out = append(out, c)
				}
			}
		}
		for _, v := range gen.DictFixed(ref.N, gen.DictStride()) {
			out = append(out, mk(ref.Bytes32(v), "decode"))
			if w := new(big.Int).Add(v, ref.N); w.BitLen() <= 256 {
				out = append(out, mk(ref.Bytes32(w), "decode"))
			}
		}
		// exhaustive word-wise neighbourhood of n: every 64-bit limb from {n_i-1, n_i, n_i+1, 0, ff..ff} (625 strings) and
		// every 32-bit word from {w-1, w, w+1} (6561 strings)
		for _, v := range append(gen.WordProducts(ref.N, 64, gen.Neighbours5), gen.WordProducts(ref.N, 32, gen.Neighbours3)...) {
			out = append(out, mk(ref.Bytes32(v), "decode"))
		}
		for _, via := range []string{"decode", "unmarshal", "hex", "text", "json"} {
			out = append(out, mk(nil, via), mk(ref.Bytes32(nm1), via), mk(ref.Bytes32(ref.N), via),
				mk(ref.Bytes32(new(big.Int).Add(ref.N, bigOne)), via), mk(ref.Bytes32(max), via), mk(ref.Bytes32(new(big.Int)), via),
				mk(make([]byte, 31), via), mk(make([]byte, 33), via), mk(make([]byte, 64), via), mk([]byte{1}, via))
		}
		return out
	},
	Required: []string{"accepted", "reject:empty", "reject:length", "reject:range", "reject:hex", "near-n", "input-interior"},
	Run: func(c caseC07dec, o *gen.Obs) error {
		// every case is evaluated twice in a row: the verdict on an input must not depend on the input having been
		// presented just before (decoders that remember their last input)
		if err := c07decOnce(c, o); err != nil {
			return err
		}
		if err := c07decOnce(c, &gen.Obs{}); err != nil {
			return gen.Fail("repeat/"+errClass(err), "second presentation of the same input: %v", err)
		}
		return nil
	},
})

func TestC07Decode(t *testing.T) { c07dec.Execute(t) }

type caseC07enc struct {
	S SV `json:"s"`
	// Batch > 0: the encoding is the first of a batch: Batch further scalars are encoded, then the caller appends to each
	// kept encoding in turn (writes over its full capacity); every later one must still be the canonical encoding of its scalar.
	Batch int `json:"batch,omitempty"`
}

var c07three = secp256k1.NewScalar().SetUInt64(3)

var c07enc = gen.Register(&gen.Check[caseC07enc]{
	Name:   "C07/encode",
	Weight: 0.5,
	Gen: func(t *rapid.T) caseC07enc {
		c := caseC07enc{S: SVGen().Draw(t, "s")}
		if gen.Chance(t, "batch", 1, 16) {
			c.Batch = 100 + gen.Pick(t, "batchSize", 400)
		}
		return c
	},
	Fixed: func() []caseC07enc {
		out := []caseC07enc{{S: SV{Hex: gen.H(new(big.Int))}}, {S: SV{Hex: gen.H(bigOne)}}, {S: SV{Hex: gen.H(nm1)}}, {S: SV{Hex: gen.H(big.NewInt(1)), Mont: true}},
			{S: SV{Hex: gen.H(big.NewInt(7))}, Batch: 300}, {S: SV{Hex: gen.H(nm1)}, Batch: 5000}}
		for _, v := range gen.DictFixed(ref.N, gen.DictStride()) {
			out = append(out, caseC07enc{S: SV{Hex: gen.H(v)}}, caseC07enc{S: SV{Hex: gen.H(v), Mont: true}})
		}
		for _, m := range gen.WordProducts(new(big.Int), 64, func(w, mask uint64) []uint64 { return gen.LimbPatterns }) {
			if m.Cmp(ref.N) < 0 {
				out = append(out, caseC07enc{S: SV{Hex: gen.H(m), Mont: true}})
			}
		}
		return out
	},
	Required: []string{"mont-domain", "leading-zero-byte", "batch"},
	Run: func(c caseC07enc, o *gen.Obs) error {
		hostileCaller()
		s := c.S.Build()
		v := c.S.Value()
		want := ref.Bytes32(v)
		o.ClassIf(c.S.Mont, "mont-domain")
		o.ClassIf(want[0] == 0, "leading-zero-byte")
		o.NonTrivialIf(v.Cmp(bigOne) > 0)
		s0 := s.S
		enc := s.Encode()
		if !bytes.Equal(enc, want) {
			return gen.Fail("Encode", "Encode(%x) = %x", v, enc)
		}
		if s.Hex() != fmt.Sprintf("%064x", v) {
			return gen.Fail("Hex", "Hex(%x) = %s", v, s.Hex())
		}
		mb, err := s.MarshalBinary()
		if err != nil || !bytes.Equal(mb, want) {
			return gen.Fail("MarshalBinary", "MarshalBinary(%x) = %x, %v", v, mb, err)
		}
		if s.S != s0 {
			return gen.Fail("Encode/mutates", "encoding changed the scalar")
		}
		for _, via := range []string{"decode", "unmarshal", "hex", "text", "json"} {
			r := secp256k1.NewScalar().SetUInt64(77)
			switch via {
			case "decode":
				err = r.Decode(enc)
			case "unmarshal":
				err = r.UnmarshalBinary(mb)
			default:
				err = r.DecodeHex(s.Hex())
			}
			if err != nil {
				return gen.Fail("roundtrip/"+via, "own encoding of %x rejected: %v", v, err)
			}
			if e := checkScalar("roundtrip/"+via, r, v); e != nil {
				return e
			}
			if r.Equal(s) != 1 {
				return gen.Fail("roundtrip/"+via, "Decode(Encode(s)) != s for %x", v)
			}
		}
		if c.Batch > 0 || v.Uint64()%8 == 0 { // (an eighth of the cases: gob set-up costs more than everything else here)
			// encoding/gob picks up BinaryMarshaler / BinaryUnmarshaler: a scalar inside another struct, by pointer and by value
			type envelope struct {
				A *secp256k1.Scalar
				B secp256k1.Scalar
			}
			var buf bytes.Buffer
			in := envelope{A: s}
			in.B.Set(s)
			if gerr := gob.NewEncoder(&buf).Encode(&in); gerr == nil {
				out := envelope{A: secp256k1.NewScalar().SetUInt64(9)}
				out.B.SetUInt64(11)
				if gerr = gob.NewDecoder(&buf).Decode(&out); gerr != nil {
					return gen.Fail("roundtrip/gob", "gob cannot decode what it encoded for %x: %v", v, gerr)
				}
				if out.A == nil || out.A.Equal(s) != 1 || out.B.Equal(s) != 1 || !bytes.Equal(out.A.Encode(), want) || !bytes.Equal(out.B.Encode(), want) {
					return gen.Fail("roundtrip/gob", "gob round trip of %x gives %x / %x", v, out.A.Encode(), out.B.Encode())
				}
				o.Class("gob-roundtrip")
			}
		}
		if c.Batch > 0 {
			o.Class("batch")
			encs, vals := [][]byte{s.Encode()}, []*secp256k1.Scalar{s}
			t := s.Copy()
			for i := 0; i < c.Batch; i++ {
				t = t.Copy().Add(c07three)
				vals = append(vals, t)
				if i%2 == 0 {
					encs = append(encs, t.Encode())
				} else {
					b, _ := t.MarshalBinary()
					encs = append(encs, b)
				}
			}
			for i, e := range encs {
				r := secp256k1.NewScalar()
				if err := r.Decode(e); err != nil || r.Equal(vals[i]) != 1 {
					return gen.Fail("Encode/batch", "encoding %d of a batch of %d no longer decodes to its scalar after the caller appended to earlier ones: %x (%v)", i, len(encs), e, err)
				}
				full := e[:cap(e)]
				for j := range full {
					full[j] = 0xa5
				}
			}
		}
		return nil
	},
})

func TestC07Encode(t *testing.T) { c07enc.Execute(t) }

func isTextVia(via string) bool { return via == "hex" || via == "text" || via == "json" }

func c07decOnce(c caseC07dec, o *gen.Obs) error {
	if c.Huge > 0 {
		data, release := gen.Huge(c.Huge, gen.HexBytes(c.Data))
		defer release()
		if data == nil {
			o.Class("skipped:no-huge-slices-here")
			return nil
		}
		o.Class("input>=2^32")
		o.NonTrivial()
		s := c.Prior.Build()
		var err error
		if c.Via == "unmarshal" {
			err = s.UnmarshalBinary(data)
		} else {
			err = s.Decode(data)
		}
		if err == nil {
			return gen.Fail("Decode/accepts-invalid", "%s accepted an input of %d bytes starting with %s", c.Via, c.Huge, c.Data)
		}
		return nil
	}
	if c.TextHex != "" {
		c.Text = string(gen.HexBytes(c.TextHex))
	}
	hostileCaller()
	data := gen.HexBytes(c.Data)
	if c.Lay.Pre > 0 || c.Lay.Post > 0 {
		data, _ = gen.Place(data, c.Lay) // a sub-slice of a larger buffer: any alignment, spare capacity behind it
		o.Class("input-interior")
	}
	if c.Nil {
		data = nil
	}
	s := c.Prior.Build()
	var (
		err      error
		hexValid = true
	)
	switch c.Via {
	case "decode":
		err = s.Decode(data)
	case "unmarshal":
		err = s.UnmarshalBinary(data)
	case "hex":
		hexValid = isHex(c.Text)
		if hexValid {
			data, _ = hex.DecodeString(c.Text)
		}
		err = s.DecodeHex(c.Text)
	case "text", "json":
		// whatever text decoder the type implements (encoding.TextUnmarshaler: encoding/json, encoding/xml, flag.TextVar) is a hex
		// decoder of this package too; the unchanged tree implements none and the case is skipped
		tu, ok := any(s).(encoding.TextUnmarshaler)
		if !ok {
			o.Class("skipped:no-text-unmarshaler")
			return nil
		}
		o.Class("text-unmarshaler")
		hexValid = isHex(c.Text)
		if hexValid {
			data, _ = hex.DecodeString(c.Text)
		}
		if c.Via == "text" {
			err = tu.UnmarshalText([]byte(c.Text))
		} else if q, qerr := json.Marshal(c.Text); qerr == nil {
			err = json.Unmarshal(q, s)
		}
	default:
		panic("via")
	}
	v := ref.OS2IP(data)
	class := "accepted"
	switch {
	case !hexValid:
		class = "reject:hex"
	case len(data) == 0:
		class = "reject:empty"
	case len(data) != 32:
		class = "reject:length"
	case v.Cmp(ref.N) >= 0:
		class = "reject:range"
	}
	o.Class(class)
	o.Class("via:" + c.Via)
	near := false
	if len(data) == 32 {
		d := new(big.Int).Sub(v, ref.N)
		near = d.Abs(d).BitLen() <= 128
		ln, lv := gen.ToLimbs(ref.N), gen.ToLimbs(v)
		diff := 0
		for i := range ln {
			if ln[i] != lv[i] {
				diff++
			}
		}
		near = near || diff == 1
	}
	o.ClassIf(near, "near-n")
	o.NonTrivialIf(near || (len(data) != 32 && len(data) != 0) || !hexValid)
	if class != "accepted" {
		if err == nil {
			return gen.Fail("Decode/accepts-invalid", "%s of %q (%s) accepted", c.Via, c.Data+c.Text, class)
		}
		if class != "reject:hex" && !(isTextVia(c.Via) && c.Text != strings.ToLower(c.Text)) {
			if e := errorClassDistinct(class, err.Error()); e != nil {
				return e
			}
		}
		// Not demanded: the receiver's value after a rejected scalar decode (DESIGN.md section 2).
		return nil
	}
	if err != nil {
		if isTextVia(c.Via) && c.Text != strings.ToLower(c.Text) {
			o.Class("hex-uppercase-rejected")
			return nil // whether upper-case hex digits are accepted is not part of the statement
		}
		return gen.Fail("Decode/rejects-valid", "%s of %x rejected: %v", c.Via, data, err)
	}
	if e := checkScalar("Decode", s, v); e != nil {
		return e
	}
	if !bytes.Equal(s.Encode(), data) {
		return gen.Fail("Decode/encode-roundtrip", "Encode(Decode(b)) != b for b=%x", data)
	}
	if s.Hex() != hex.EncodeToString(data) {
		return gen.Fail("Hex", "Hex() = %s for %x", s.Hex(), data)
	}
	if mb, e := s.MarshalBinary(); e != nil || !bytes.Equal(mb, data) {
		return gen.Fail("MarshalBinary", "MarshalBinary() = %x, %v", mb, e)
	}
	// The stored value is the integer: rebuild it from its four 64-bit words with the package's own
	// SetUInt64/Multiply/Add (guards against a mutually inverse but wrong encode/decode pair).
	l := gen.ToLimbs(v)
	two64 := secp256k1.NewScalar().SetUInt64(1 << 32)
	two64.Multiply(two64)
	acc := secp256k1.NewScalar()
	for i := 3; i >= 0; i-- {
		acc.Multiply(two64)
		acc.Add(secp256k1.NewScalar().SetUInt64(l[i]))
	}
	if acc.Equal(s) != 1 {
		return gen.Fail("Decode/horner", "decoded %x differs from its Horner reconstruction %x", data, acc.Encode())
	}
	// the input buffer belongs to the caller, who re-uses it: the decoded object keeps its value
	if !isTextVia(c.Via) && len(data) <= 1<<16 {
		want := append([]byte(nil), data...)
		for i := range data {
			data[i] ^= 0xA5
		}
		if got := s.Encode(); !bytes.Equal(got, want) || !bytes.Equal(s.Copy().Encode(), want) {
			return gen.Fail("Decode/keeps-input-slice", "after the caller overwrote the buffer it had passed to %s, the decoded scalar encodes to %x instead of %x", c.Via, got, want)
		}
	}
	return nil
}
