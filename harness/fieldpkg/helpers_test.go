// Package fieldpkg holds C12: the checks that call internal/field directly (possible because the harness module path
// is nested under the path of the module under test).
package fieldpkg

import (
	"bytes"
	"math/big"
	"testing"

	"github.com/bytemare/secp256k1/internal/field"
	"github.com/bytemare/secp256k1/verifharness/gen"
	_ "github.com/bytemare/secp256k1/verifharness/pt" // registers the cold-start exercise
	"github.com/bytemare/secp256k1/verifharness/ref"
	"pgregory.net/rapid"
)

func TestMain(m *testing.M) { gen.Main(m) }

// TestReplay replays $VERIF_REPLAY.
func TestReplay(t *testing.T) { gen.ReplayMain(t) }

var (
	bigOne = big.NewInt(1)
	rP     = new(big.Int).Mod(new(big.Int).Lsh(bigOne, 256), ref.P)
	rPInv  = new(big.Int).ModInverse(rP, ref.P)
	rN     = new(big.Int).Mod(new(big.Int).Lsh(bigOne, 256), ref.N)
	rNInv  = new(big.Int).ModInverse(rN, ref.N)
)

// FV is a base-field value in a case file: canonical value, or (Mont) the integer formed by the
// Montgomery limbs. Both < p.
type FV struct {
	Hex  string `json:"v"`
	Mont bool   `json:"mont,omitempty"`
}

// Value is the canonical integer.
func (f FV) Value() *big.Int {
	v := gen.B(f.Hex)
	if f.Mont {
		return v.Mod(v.Mul(v, rPInv), ref.P)
	}
	return v
}

// Limbs are the Montgomery limbs to install; computed by the model, not by the code under test.
func (f FV) Limbs() [4]uint64 {
	v := gen.B(f.Hex)
	if f.Mont {
		return gen.ToLimbs(v)
	}
	return gen.ToLimbs(v.Mod(v.Mul(v, rP), ref.P))
}

// Build returns a fresh field element holding the value.
func (f FV) Build() *field.Element {
	e := field.New()
	l := f.Limbs()
	copy(e.E[:], l[:])
	return e
}

func fv(v *big.Int) FV { return FV{Hex: gen.H(v)} }

// FVGen draws field values in both domains.
func FVGen() *rapid.Generator[FV] {
	return rapid.Custom(func(t *rapid.T) FV {
		v := gen.Int(ref.P).Draw(t, "fv")
		return FV{Hex: gen.H(v), Mont: rapid.IntRange(0, 2).Draw(t, "mont") == 0}
	})
}

// feValue reads a field element's value from its limbs, independently of the code under test.
func feValue(e *field.Element) (*big.Int, bool) {
	m := gen.FromLimbs([4]uint64(e.E))
	ok := m.Cmp(ref.P) < 0
	return m.Mod(m.Mul(m, rPInv), ref.P), ok
}

// checkFE asserts that e is canonical, denotes want and serialises to want's 32 bytes.
func checkFE(site string, e *field.Element, want *big.Int) error {
	got, ok := feValue(e)
	if !ok {
		return gen.Fail(site+"/non-canonical", "stored limbs %v are not < p", e.E)
	}
	if got.Cmp(want) != 0 {
		return gen.Fail(site+"/value", "value %x, want %x", got, want)
	}
	if b := e.Bytes(); !bytes.Equal(b, ref.Bytes32(want)) {
		return gen.Fail(site+"/bytes", "Bytes = %x, want %x", b, ref.Bytes32(want))
	}
	return nil
}
