package fieldpkg

import (
	"math/big"
	"testing"

	"github.com/bytemare/secp256k1/verifharness/gen"
	"github.com/bytemare/secp256k1/verifharness/ref"
)

// FuzzFieldOps drives the C12 oracle from fuzzer bytes (thorough tier; many-core random driver).
func FuzzFieldOps(f *testing.F) {
	for i, v := range []*big.Int{new(big.Int), bigOne, pm1, new(big.Int).Rsh(ref.P, 1), new(big.Int).Lsh(bigOne, 255), rP, rPInv, big.NewInt(7)} {
		f.Add(ref.Bytes32(v), ref.Bytes32(pm1), uint8(i), uint8(i))
		f.Add(ref.Bytes32(pm1), ref.Bytes32(v), uint8(i+5), uint8(0))
	}
	aliases := []string{"", "out=u", "out=v", "u=v", "all"}
	f.Fuzz(func(t *testing.T, a, b []byte, op, flags uint8) {
		if len(a) != 32 || len(b) != 32 {
			return
		}
		va, vb := new(big.Int).Mod(ref.OS2IP(a), ref.P), new(big.Int).Mod(ref.OS2IP(b), ref.P)
		c := caseC12{Op: c12ops[int(op)%len(c12ops)], U: FV{Hex: gen.H(va), Mont: flags&1 != 0}, V: FV{Hex: gen.H(vb), Mont: flags&2 != 0},
			Prior: fv(big.NewInt(9)), Alias: aliases[int(flags>>2)%len(aliases)], Cond: uint64(flags>>7) & 1, Rel: "fuzz"}
		c12.FuzzOne(t, c)
		c12bytes.FuzzOne(t, caseC12bytes{Kind: "parse32", Data: gen.H(ref.OS2IP(a))})
	})
}
