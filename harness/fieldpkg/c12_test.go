package fieldpkg

import (
	"bytes"
	"encoding/hex"
	"math/big"
	"testing"

	"github.com/bytemare/secp256k1/internal/field"
	"github.com/bytemare/secp256k1/verifharness/gen"
	"github.com/bytemare/secp256k1/verifharness/ref"
	"pgregory.net/rapid"
)

// C12: the base-field layer computes exact, canonical arithmetic in F_p.

type caseC12 struct {
	Op    string `json:"op"`
	U     FV     `json:"u"`
	V     FV     `json:"v"`
	Prior FV     `json:"prior"`           // value of the output element before the call
	Alias string `json:"alias,omitempty"` // "" | out=u | out=v | u=v | all
	Cond  uint64 `json:"cond,omitempty"`  // cmove: 0 or 1
	Rel   string `json:"rel,omitempty"`   // equals: how v was derived from u
	// Noise > 0: another exported function of the layer is called first, on other objects (the order of two different kinds of
	// call must not matter: whatever the first leaves in pools or scratch space is not the second's input).
	Noise int `json:"noise,omitempty"`
}

// NumNoise is the number of fieldNoise recipes.
const NumNoise = 8

// fieldNoise calls one of the layer's other exported functions with operands derived from seed.
func fieldNoise(kind int, seed *big.Int, operand *field.Element) {
	full := ref.Bytes32(new(big.Int).Mod(new(big.Int).Add(new(big.Int).Lsh(seed, 64), pm1), ref.P)) // a value with all four words in use
	a := field.New()
	switch kind {
	case 1:
		a.FromBytesNoReduce(full)
	case 2:
		a.FromBytesNoReduce(full[8:])
	case 3:
		a.FromBytesWithReduce([32]byte(bytes.Repeat([]byte{0xff}, 32)))
	case 4:
		var w [48]byte
		copy(w[:], bytes.Repeat(full, 2))
		a.HashToFieldElement(w)
	case 5:
		a.FromBytesNoReduce(full)
		field.New().SqrtRatio(a, field.New().One())
		_ = a.Bytes()
	case 7:
		// a caller's own mistakes (nil receivers and operands), recovered: the layer must be as usable as before
		a.FromBytesNoReduce(full)
		if operand != nil {
			a.Set(operand) // the mistaken calls are made with the very operand of the call under test
		}
		var z *field.Element
		for _, f := range []func(){func() { z.Invert(*a) }, func() { z.Add(a, a) }, func() { z.Multiply(a, a) }, func() { field.New().Add(nil, a) },
			func() { field.New().Multiply(a, nil) }, func() { z.SqrtRatio(a, a) }, func() { field.New().SqrtRatio(nil, a) }, func() { _ = z.Bytes() }, func() { z.Square(a) }} {
			func() {
				defer func() { _ = recover() }()
				f()
			}()
		}
	case 6:
		a.FromBytesNoReduce(full)
		b := field.New().Invert(*a)
		a.CMove(1, a, b)
		field.New().SqrtRatio(a, b)
	}
}

var c12ops = []string{"add", "sub", "mul", "square", "neg", "invert", "sqrtratio", "sgn0", "iszero", "equals", "cmove", "set", "one", "bytes", "mul", "square", "mul", "square", "add", "sub"}

func mk12(op string, u, v *big.Int) caseC12 {
	return caseC12{Op: op, U: fv(u), V: fv(v), Prior: fv(big.NewInt(9))}
}

var pm1 = new(big.Int).Sub(ref.P, bigOne)

var c12 = gen.Register(&gen.Check[caseC12]{
	Name: "C12/ops",
	Gen: func(t *rapid.T) caseC12 {
		c := caseC12{Op: rapid.SampledFrom(c12ops).Draw(t, "op"), U: FVGen().Draw(t, "u"), V: FVGen().Draw(t, "v"), Prior: FVGen().Draw(t, "prior")}
		c.Alias = rapid.SampledFrom([]string{"", "", "", "out=u", "out=v", "u=v", "all"}).Draw(t, "alias")
		c.Cond = uint64(rapid.IntRange(0, 1).Draw(t, "cond"))
		if gen.Chance(t, "noise", 1, 4) {
			c.Noise = 1 + gen.Pick(t, "noiseKind", NumNoise-1)
		}
		if c.Op == "equals" {
			c.Rel = rapid.SampledFrom([]string{"random", "equal", "one-mont-limb", "adjacent"}).Draw(t, "rel")
			switch c.Rel {
			case "equal":
				c.V = c.U
			case "adjacent":
				c.V = fv(new(big.Int).Mod(new(big.Int).Add(c.U.Value(), bigOne), ref.P))
			case "one-mont-limb":
				l := c.U.Limbs()
				i := rapid.IntRange(0, 3).Draw(t, "limb")
				switch rapid.IntRange(0, 2).Draw(t, "how") {
				case 0:
					l[i] ^= 1 << uint(rapid.IntRange(0, 63).Draw(t, "bit"))
				case 1:
					l[i]++
				default:
					l[i] = gen.Limb().Draw(t, "nl")
				}
				m := gen.FromLimbs(l)
				if m.Cmp(ref.P) >= 0 {
					m.Mod(m, ref.P)
				}
				c.U = FV{Hex: gen.H(gen.FromLimbs(c.U.Limbs())), Mont: true}
				c.V = FV{Hex: gen.H(m), Mont: true}
			}
		}
		if c.Op == "sqrtratio" && gen.Chance(t, "perfectsq", 1, 4) {
			// make u/v a square on purpose: u = w^2 * v
			w := gen.Int(ref.P).Draw(t, "w")
			c.U = fv(ref.FMul(ref.FMul(w, w), c.V.Value()))
		}
		return c
	},
	Fixed: func() []caseC12 {
		z := new(big.Int)
		two := big.NewInt(2)
		var dictCases []caseC12
		for _, v := range gen.DictFixed(ref.P, gen.DictStride()) {
			dictCases = append(dictCases, mk12("invert", v, z), mk12("square", v, z), mk12("mul", v, v), mk12("neg", v, z), mk12("sqrtratio", v, two),
				caseC12{Op: "mul", U: FV{Hex: gen.H(v), Mont: true}, V: fv(v), Prior: fv(two)}, caseC12{Op: "bytes", U: FV{Hex: gen.H(v), Mont: true}, V: fv(z), Prior: fv(two)})
			if v.Sign() != 0 { // ... and as the SECOND operand (the denominator), as a value and as a Montgomery form
				dictCases = append(dictCases, mk12("sqrtratio", big.NewInt(3), v), caseC12{Op: "sqrtratio", U: fv(big.NewInt(5)), V: FV{Hex: gen.H(v), Mont: true}, Prior: fv(two)},
					caseC12{Op: "mul", U: fv(big.NewInt(5)), V: FV{Hex: gen.H(v), Mont: true}, Prior: fv(two)}, caseC12{Op: "sub", U: fv(big.NewInt(5)), V: FV{Hex: gen.H(v), Mont: true}, Prior: fv(two)})
			}
		}
		out := []caseC12{
			mk12("add", pm1, bigOne), mk12("add", pm1, pm1), mk12("sub", z, bigOne), mk12("sub", bigOne, pm1), mk12("mul", pm1, pm1),
			mk12("square", pm1, z), mk12("neg", z, z), mk12("neg", bigOne, z), mk12("neg", pm1, z),
			mk12("invert", z, z), mk12("invert", bigOne, z), mk12("invert", pm1, z), mk12("invert", two, z),
			mk12("sqrtratio", z, bigOne), mk12("sqrtratio", bigOne, bigOne), mk12("sqrtratio", big.NewInt(4), bigOne), mk12("sqrtratio", big.NewInt(7), bigOne),
			mk12("sqrtratio", big.NewInt(3), two), mk12("sqrtratio", pm1, bigOne), mk12("sqrtratio", pm1, pm1),
			mk12("sgn0", z, z), mk12("sgn0", bigOne, z), mk12("sgn0", pm1, z), mk12("iszero", z, z), mk12("iszero", pm1, z),
			mk12("equals", pm1, pm1), mk12("equals", z, pm1), mk12("one", two, z), mk12("bytes", pm1, z), mk12("set", pm1, z),
		}
		// exhaustive: every element whose four Montgomery limbs are taken from LimbPatterns (10^4 values, those < p kept),
		// through the one-operand operations
		for _, m := range gen.WordProducts(new(big.Int), 64, func(w, mask uint64) []uint64 { return gen.LimbPatterns }) {
			if m.Cmp(ref.P) >= 0 {
				continue
			}
			for _, op := range []string{"square", "neg", "iszero", "sgn0", "bytes"} {
				out = append(out, caseC12{Op: op, U: FV{Hex: gen.H(m), Mont: true}, V: fv(z), Prior: fv(z), Rel: "pattern-product"})
			}
		}
		for _, cond := range []uint64{0, 1} {
			c := mk12("cmove", big.NewInt(3), big.NewInt(5))
			c.Cond = cond
			out = append(out, c)
		}
		for _, op := range []string{"add", "sub", "mul", "square", "neg", "invert", "sqrtratio", "cmove"} {
			for _, al := range []string{"out=u", "out=v", "u=v", "all"} {
				c := mk12(op, big.NewInt(1234567), pm1)
				c.Alias = al
				out = append(out, c)
			}
		}
		out = append(out, dictCases...)
		return out
	},
	Required: []string{"mont-operand", "alias", "wrap:add", "wrap:sub", "sqrt:square", "sqrt:non-square", "equals:one-mont-limb", "op:invert"},
	Run: func(c caseC12, o *gen.Obs) error {
		u, v, out := c.U.Build(), c.V.Build(), c.Prior.Build()
		if c.Noise > 0 {
			fieldNoise(c.Noise, c.Prior.Value(), c.U.Build())
			o.Class("after-other-call")
		}
		vu, vv := c.U.Value(), c.V.Value()
		switch c.Alias {
		case "out=u":
			out = u
		case "out=v":
			out = v
			if c.Op == "square" || c.Op == "neg" || c.Op == "invert" || c.Op == "set" {
				out = c.Prior.Build() // single-operand ops: no v
			}
		case "u=v":
			v, vv = u, vu
		case "all":
			v, vv, out = u, vu, u
		}
		o.Class("op:" + c.Op)
		o.ClassIf(c.U.Mont || c.V.Mont, "mont-operand")
		o.ClassIf(c.Alias != "", "alias")
		o.NonTrivialIf(vu.Cmp(bigOne) > 0 || vv.Cmp(bigOne) > 0)
		u0, v0 := u.E, v.E
		unchanged := func() error {
			if (out != u && u.E != u0) || (out != v && v.E != v0) {
				return gen.Fail(c.Op+"/mutates-operand", "an input other than the output element changed")
			}
			return nil
		}
		var want *big.Int
		switch c.Op {
		case "add":
			out.Add(u, v)
			s := new(big.Int).Add(vu, vv)
			o.ClassIf(s.Cmp(ref.P) >= 0, "wrap:add")
			want = s.Mod(s, ref.P)
		case "sub":
			out.Subtract(u, v)
			o.ClassIf(vu.Cmp(vv) < 0, "wrap:sub")
			want = ref.FSub(vu, vv)
		case "mul":
			out.Multiply(u, v)
			want = ref.FMul(vu, vv)
		case "square":
			out.Square(u)
			want = ref.FMul(vu, vu)
		case "neg":
			out.Negate(u)
			want = ref.FNeg(vu)
		case "invert":
			out.Invert(*u)
			want = ref.FInv0(vu)
		case "set":
			out.Set(u)
			want = vu
		case "one":
			out.One()
			want = big.NewInt(1)
		case "bytes":
			return checkFE("Bytes", u, vu)
		case "sgn0":
			if got := u.Sgn0(); got != uint64(vu.Bit(0)) {
				return gen.Fail("Sgn0", "Sgn0(%x) = %d", vu, got)
			}
			return unchanged()
		case "iszero":
			w := uint64(0)
			if vu.Sign() == 0 {
				w = 1
			}
			if got := u.IsZero(); got != w {
				return gen.Fail("IsZero", "IsZero(%x) = %d", vu, got)
			}
			return unchanged()
		case "equals":
			o.Class("equals:" + c.Rel)
			w := uint64(0)
			if vu.Cmp(vv) == 0 {
				w = 1
			}
			if got := u.Equals(v); got != w {
				return gen.Fail("Equals", "Equals(%x, %x) = %d (limbs %v vs %v)", vu, vv, got, u.E, v.E)
			}
			if got := v.Equals(u); got != w {
				return gen.Fail("Equals/symmetry", "Equals(%x, %x) = %d", vv, vu, got)
			}
			return unchanged()
		case "cmove":
			out.CMove(c.Cond, u, v)
			want = vu
			if c.Cond == 1 {
				want = vv
			}
		case "sqrtratio":
			if vv.Sign() == 0 {
				o.Class("skipped:v=0")
				return nil // outside the statement (v != 0)
			}
			ratio := ref.FMul(vu, ref.FInv0(vv))
			isSq := ref.IsSquare(ratio)
			o.ClassIf(isSq, "sqrt:square")
			o.ClassIf(!isSq, "sqrt:non-square")
			ret, flag := out.SqrtRatio(u, v)
			if ret != out {
				return gen.Fail("SqrtRatio/return", "did not return the receiver")
			}
			if (flag == 1) != isSq || flag > 1 {
				return gen.Fail("SqrtRatio/flag", "SqrtRatio(%x, %x) flag = %d, u/v square = %v", vu, vv, flag, isSq)
			}
			y, ok := feValue(out)
			if !ok {
				return gen.Fail("SqrtRatio/non-canonical", "result limbs %v not < p", out.E)
			}
			// v was possibly overwritten when out aliases it: use the recorded value vv
			lhs := ref.FMul(ref.FMul(y, y), vv)
			rhs := vu
			if !isSq {
				rhs = ref.FMul(ref.SswuZ, vu)
			}
			if lhs.Cmp(rhs) != 0 {
				return gen.Fail("SqrtRatio/root", "SqrtRatio(%x, %x) = %x: y^2*v = %x, want %x (square=%v)", vu, vv, y, lhs, rhs, isSq)
			}
			if e := checkFE("SqrtRatio", out, y); e != nil {
				return e
			}
			return unchanged()
		default:
			panic("op " + c.Op)
		}
		if e := checkFE(c.Op, out, want); e != nil {
			return gen.Fail(c.Op, "%s(u=%x, v=%x, alias=%q, cond=%d): %v", c.Op, vu, vv, c.Alias, c.Cond, e)
		}
		return unchanged()
	},
})

func TestC12Ops(t *testing.T) { c12.Execute(t) }

// --- parser, serialiser, wide reduction ------------------------------------------------------------------

type caseC12bytes struct {
	Kind  string `json:"kind"` // parse32 | wide48
	Data  string `json:"data"`
	Noise int    `json:"noise,omitempty"` // see caseC12
}

func gen32AroundP(t *rapid.T) *big.Int {
	two256 := new(big.Int).Lsh(bigOne, 256)
	var v *big.Int
	switch gen.Pick(t, "k32", 8) {
	case 6:
		v = gen.PerturbWords(t, ref.P, 64)
	case 7:
		v = gen.PerturbWords(t, ref.P, 32)
	case 0:
		v = gen.Int(ref.P).Draw(t, "v")
	case 1:
		v = new(big.Int).Add(ref.P, big.NewInt(int64(rapid.IntRange(-3, 3).Draw(t, "d"))))
	case 2:
		v = new(big.Int).Add(ref.P, new(big.Int).SetUint64(uint64(rapid.Uint32().Draw(t, "d32"))))
	case 3: // p with one limb replaced
		l := gen.ToLimbs(ref.P)
		l[rapid.IntRange(0, 3).Draw(t, "limb")] = gen.Limb().Draw(t, "nl")
		v = gen.FromLimbs(l)
	case 4:
		v = new(big.Int).Sub(two256, new(big.Int).SetUint64(1+uint64(rapid.Uint32().Draw(t, "top"))))
	default:
		v = gen.Uniform256().Draw(t, "r")
	}
	if v.Sign() < 0 {
		v.Neg(v)
	}
	return v.Mod(v, two256)
}

var c12bytes = gen.Register(&gen.Check[caseC12bytes]{
	Name:   "C12/bytes",
	Weight: 0.5,
	Gen: func(t *rapid.T) caseC12bytes {
		noise := 0
		if gen.Chance(t, "noise", 1, 3) {
			noise = 1 + gen.Pick(t, "noiseKind", NumNoise-1)
		}
		if rapid.Bool().Draw(t, "wide") {
			return caseC12bytes{Kind: "wide48", Data: hex.EncodeToString(gen.Wide48(t, ref.P)), Noise: noise}
		}
		return caseC12bytes{Kind: "parse32", Data: gen.H(gen32AroundP(t)), Noise: noise}
	},
	Fixed: func() []caseC12bytes {
		two256 := new(big.Int).Lsh(bigOne, 256)
		var out []caseC12bytes
		for _, v := range []*big.Int{new(big.Int), bigOne, pm1, ref.P, new(big.Int).Add(ref.P, bigOne), new(big.Int).Sub(two256, bigOne)} {
			out = append(out, caseC12bytes{Kind: "parse32", Data: gen.H(v)})
		}
		for _, v := range append(gen.WordProducts(ref.P, 64, gen.Neighbours5), gen.WordProducts(ref.P, 32, gen.Neighbours3)...) {
			out = append(out, caseC12bytes{Kind: "parse32", Data: gen.H(v)})
		}
		for _, v := range gen.DictFixed(ref.P, gen.DictStride()) {
			out = append(out, caseC12bytes{Kind: "parse32", Data: gen.H(v)})
			w := append(append([]byte{}, ref.Bytes32(v)[16:]...), ref.Bytes32(v)...)
			out = append(out, caseC12bytes{Kind: "wide48", Data: hex.EncodeToString(w)})
		}
		ff := make([]byte, 48)
		for i := range ff {
			ff[i] = 0xff
		}
		out = append(out, caseC12bytes{Kind: "wide48", Data: hex.EncodeToString(ff)}, caseC12bytes{Kind: "wide48", Data: hex.EncodeToString(make([]byte, 48))})
		return out
	},
	Required: []string{"parse:<p", "parse:>=p", "wide:>=p", "wide:high-half-nonzero"},
	Run: func(c caseC12bytes, o *gen.Obs) error {
		data := gen.HexBytes(c.Data)
		v := ref.OS2IP(data)
		o.NonTrivial()
		if c.Noise > 0 {
			fieldNoise(c.Noise, new(big.Int).Rsh(v, 7), nil)
			o.Class("after-other-call")
		}
		switch c.Kind {
		case "parse32":
			lt := v.Cmp(ref.P) < 0
			o.ClassIf(lt, "parse:<p")
			o.ClassIf(!lt, "parse:>=p")
			e := field.New()
			ret, flag := e.FromBytesWithReduce([32]byte(data))
			if ret != e {
				return gen.Fail("FromBytesWithReduce/return", "did not return the receiver")
			}
			if (flag == 1) != lt || flag > 1 {
				return gen.Fail("FromBytesWithReduce/flag", "input %x: flag %d, input < p is %v", data, flag, lt)
			}
			return checkFE("FromBytesWithReduce", e, new(big.Int).Mod(v, ref.P))
		case "wide48":
			o.ClassIf(v.Cmp(ref.P) >= 0, "wide:>=p")
			o.ClassIf(v.BitLen() > 192, "wide:high-half-nonzero")
			e := field.New().One()
			if ret := e.HashToFieldElement([48]byte(data)); ret != e {
				return gen.Fail("HashToFieldElement/return", "did not return the receiver")
			}
			return checkFE("HashToFieldElement", e, new(big.Int).Mod(v, ref.P))
		}
		panic("kind")
	},
})

func TestC12Bytes(t *testing.T) { c12bytes.Execute(t) }
