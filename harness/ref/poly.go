package ref

import "math/big"

// Polynomials over F_p and a root finder (Cantor-Zassenhaus for the linear factors). They let the generators SOLVE for an input
// of the map-to-curve code that drives a chosen intermediate value of the RFC 9380 straight-line program to a chosen value:
// every intermediate of steps 1-17 and 19 of F.2 is a polynomial of degree <= 12 in u, the isogeny's numerators and denominators
// are polynomials of degree <= 3 in x'. The model only needs the RFC's formulas for this, nothing from the code under test.

// Poly is a polynomial over F_p, coefficient of x^i at index i, without trailing zeros (the zero polynomial is empty).
type Poly []*big.Int

func polyTrim(a Poly) Poly {
	for len(a) > 0 && a[len(a)-1].Sign() == 0 {
		a = a[:len(a)-1]
	}
	return a
}

// PolyConst is the constant polynomial c; PolyX is x.
func PolyConst(c *big.Int) Poly { return polyTrim(Poly{mod(c, P)}) }

// PolyX is the polynomial x.
func PolyX() Poly { return Poly{big.NewInt(0), big.NewInt(1)} }

// Deg is the degree (-1 for the zero polynomial).
func (a Poly) Deg() int { return len(a) - 1 }

// Eval evaluates a at x.
func (a Poly) Eval(x *big.Int) *big.Int {
	r := big.NewInt(0)
	for i := len(a) - 1; i >= 0; i-- {
		r = fadd(fmul(r, x), a[i])
	}
	return r
}

// PolyAdd returns a + b.
func PolyAdd(a, b Poly) Poly {
	if len(a) < len(b) {
		a, b = b, a
	}
	out := make(Poly, len(a))
	for i := range a {
		if i < len(b) {
			out[i] = fadd(a[i], b[i])
		} else {
			out[i] = new(big.Int).Set(a[i])
		}
	}
	return polyTrim(out)
}

// PolyScale returns c * a.
func PolyScale(a Poly, c *big.Int) Poly {
	out := make(Poly, len(a))
	for i := range a {
		out[i] = fmul(a[i], c)
	}
	return polyTrim(out)
}

// PolySub returns a - b.
func PolySub(a, b Poly) Poly { return PolyAdd(a, PolyScale(b, fneg(big.NewInt(1)))) }

// PolyMul returns a * b.
func PolyMul(a, b Poly) Poly {
	if len(a) == 0 || len(b) == 0 {
		return nil
	}
	out := make(Poly, len(a)+len(b)-1)
	for i := range out {
		out[i] = new(big.Int)
	}
	for i := range a {
		for j := range b {
			out[i+j].Add(out[i+j], new(big.Int).Mul(a[i], b[j]))
		}
	}
	for i := range out {
		out[i].Mod(out[i], P)
	}
	return polyTrim(out)
}

// PolyMod returns a mod f (f non-zero).
func PolyMod(a, f Poly) Poly {
	r := make(Poly, len(a))
	for i := range a {
		r[i] = new(big.Int).Set(a[i])
	}
	r = polyTrim(r)
	lead := finv(f[len(f)-1])
	for len(r) >= len(f) {
		c := fmul(r[len(r)-1], lead)
		sh := len(r) - len(f)
		for i := range f {
			r[sh+i] = fsub(r[sh+i], fmul(c, f[i]))
		}
		r = polyTrim(r)
	}
	return r
}

// PolyGCD returns the monic greatest common divisor.
func PolyGCD(a, b Poly) Poly {
	for len(b) > 0 {
		a, b = b, PolyMod(a, b)
	}
	if len(a) == 0 {
		return nil
	}
	return PolyScale(a, finv(a[len(a)-1]))
}

// polyPowMod returns base^e mod f.
func polyPowMod(base Poly, e *big.Int, f Poly) Poly {
	result := Poly{big.NewInt(1)}
	b := PolyMod(base, f)
	for i := e.BitLen() - 1; i >= 0; i-- {
		result = PolyMod(PolyMul(result, result), f)
		if e.Bit(i) == 1 {
			result = PolyMod(PolyMul(result, b), f)
		}
	}
	return result
}

// PolyRoots returns all roots of f in F_p (f non-zero), in no particular order. salt makes the random splitting deterministic.
func PolyRoots(f Poly, salt uint64) []*big.Int {
	f = polyTrim(f)
	if len(f) <= 1 {
		return nil
	}
	var roots []*big.Int
	// the factor x^k
	for len(f) > 1 && f[0].Sign() == 0 {
		if len(roots) == 0 {
			roots = append(roots, big.NewInt(0))
		}
		f = f[1:]
	}
	if len(f) <= 1 {
		return roots
	}
	// g = gcd(x^p - x, f): the product of the distinct linear factors
	xp := polyPowMod(PolyX(), P, f)
	g := PolyGCD(PolySub(xp, PolyX()), f)
	half := new(big.Int).Rsh(new(big.Int).Sub(P, big.NewInt(1)), 1)
	var split func(g Poly, depth uint64)
	split = func(g Poly, depth uint64) {
		switch g.Deg() {
		case -1, 0:
			return
		case 1: // x + c (monic)
			roots = append(roots, fneg(fmul(g[0], finv(g[1]))))
			return
		}
		for try := uint64(1); try < 64; try++ {
			a := new(big.Int).SetUint64((salt+1)*0x9E3779B97F4A7C15 + depth*0xD1B54A32D192ED03 + try*0x2545F4914F6CDD1D)
			a.Mul(a, a).Mod(a, P)
			h := polyPowMod(Poly{a, big.NewInt(1)}, half, g) // (x + a)^((p-1)/2) mod g
			d := PolyGCD(PolySub(h, Poly{big.NewInt(1)}), g)
			if d.Deg() > 0 && d.Deg() < g.Deg() {
				split(d, depth*2+1)
				q := polyDivExact(g, d)
				split(q, depth*2+2)
				return
			}
		}
	}
	split(g, 0)
	return roots
}

// polyDivExact returns a / d for d dividing a.
func polyDivExact(a, d Poly) Poly {
	r := make(Poly, len(a))
	for i := range a {
		r[i] = new(big.Int).Set(a[i])
	}
	q := make(Poly, len(a)-len(d)+1)
	lead := finv(d[len(d)-1])
	for i := len(q) - 1; i >= 0; i-- {
		c := fmul(r[i+len(d)-1], lead)
		q[i] = c
		for j := range d {
			r[i+j] = fsub(r[i+j], fmul(c, d[j]))
		}
	}
	return polyTrim(q)
}

// SSWUStepPolys returns, for the straight-line simplified-SWU program of RFC 9380 appendix F.2 (sqrt_ratio variant, the
// non-exceptional branch of step 7), the value of every step 1..17 and 19 as a polynomial in u. Index i holds step i+1; step 18
// (sqrt_ratio) is not a polynomial and is nil.
func SSWUStepPolys() []Poly {
	u := PolyX()
	a, b, z := PolyConst(IsoA), PolyConst(IsoB), PolyConst(SswuZ)
	one := PolyConst(big.NewInt(1))
	s := make([]Poly, 19)
	tv1 := PolyMul(u, u) // 1
	s[0] = tv1
	tv1 = PolyMul(z, tv1) // 2
	s[1] = tv1
	tv2 := PolyMul(tv1, tv1) // 3
	s[2] = tv2
	tv2 = PolyAdd(tv2, tv1) // 4
	s[3] = tv2
	tv3 := PolyAdd(tv2, one) // 5
	s[4] = tv3
	tv3 = PolyMul(b, tv3) // 6
	s[5] = tv3
	tv4 := PolySub(nil, tv2) // 7 (tv2 != 0)
	s[6] = tv4
	tv4 = PolyMul(a, tv4) // 8
	s[7] = tv4
	tv2 = PolyMul(tv3, tv3) // 9
	s[8] = tv2
	tv6 := PolyMul(tv4, tv4) // 10
	s[9] = tv6
	tv5 := PolyMul(a, tv6) // 11
	s[10] = tv5
	tv2 = PolyAdd(tv2, tv5) // 12
	s[11] = tv2
	tv2 = PolyMul(tv2, tv3) // 13
	s[12] = tv2
	tv6 = PolyMul(tv6, tv4) // 14
	s[13] = tv6
	tv5 = PolyMul(b, tv6) // 15
	s[14] = tv5
	tv2 = PolyAdd(tv2, tv5) // 16
	s[15] = tv2
	s[16] = PolyMul(tv1, tv3) // 17: x = tv1 * tv3
	s[18] = PolyMul(tv1, u)   // 19: y = tv1 * u
	return s
}

// IsoPolys returns the four polynomials in x' of the 3-isogeny of appendix E.1: x_num, x_den, y_num, y_den.
func IsoPolys() []Poly {
	return []Poly{{k10, k11, k12, k13}, {k20, k21, big.NewInt(1)}, {k30, k31, k32, k33}, {k40, k41, k42, big.NewInt(1)}}
}

// SolvePoly returns the roots x of f(x) = target.
func SolvePoly(f Poly, target *big.Int, salt uint64) []*big.Int {
	return PolyRoots(PolySub(f, PolyConst(target)), salt)
}

// PolySelfTest validates the polynomial model against the non-straight-line SSWU of this package and checks the root finder.
// A failure is a harness error.
func PolySelfTest() error {
	steps := SSWUStepPolys()
	for _, u0 := range []*big.Int{big.NewInt(12345), mustHex("6b0f9910dd2ba71c78f2ee9f04d73b5f4c5f7fc773a701abea1e573cab002fb3")} {
		zu2 := fmul(SswuZ, fmul(u0, u0))
		x1 := fmul(fmul(fneg(IsoB), finv(IsoA)), fadd(big.NewInt(1), finv(fadd(fmul(zu2, zu2), zu2))))
		if got := fmul(steps[5].Eval(u0), finv(steps[7].Eval(u0))); got.Cmp(x1) != 0 {
			return errPoly("step 6 / step 8 is not x1")
		}
		if got := fmul(steps[15].Eval(u0), finv(steps[13].Eval(u0))); got.Cmp(isoG(x1)) != 0 {
			return errPoly("step 16 / step 14 is not g(x1)")
		}
		if got := fmul(steps[16].Eval(u0), finv(steps[7].Eval(u0))); got.Cmp(fmul(zu2, x1)) != 0 {
			return errPoly("step 17 / step 8 is not x2")
		}
		for _, i := range []int{3, 15} {
			target := steps[i].Eval(u0)
			roots, found := SolvePoly(steps[i], target, 7), false
			for _, r := range roots {
				if steps[i].Eval(r).Cmp(target) != 0 {
					return errPoly("a reported root is not a root")
				}
				found = found || r.Cmp(u0) == 0
			}
			if !found || len(roots) < 2 { // (u0 and -u0 at least: the steps are even in u)
				return errPoly("the root finder missed a known root")
			}
		}
	}
	return nil
}

type errPoly string

func (e errPoly) Error() string { return "ref: polynomial model: " + string(e) }
