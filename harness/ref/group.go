// Package ref is the independent reference model used as oracle by every check.
// It imports nothing from the code under test: canonical integers (math/big), affine points with an
// explicit infinity flag, textbook chord/tangent group law, SEC1 encodings and RFC 9380 written from the
// non-optimised descriptions.
package ref

import (
	"bytes"
	"encoding/hex"
	"fmt"
	"math/big"
)

func mustHex(s string) *big.Int {
	v, ok := new(big.Int).SetString(s, 16)
	if !ok {
		panic("bad hex literal " + s)
	}
	return v
}

var (
	// P is the base-field prime 2^256 - 2^32 - 977.
	P = mustHex("fffffffffffffffffffffffffffffffffffffffffffffffffffffffefffffc2f")
	// N is the group order.
	N = mustHex("fffffffffffffffffffffffffffffffebaaedce6af48a03bbfd25e8cd0364141")
	// Gx, Gy are the affine coordinates of the generator.
	Gx = mustHex("79be667ef9dcbbac55a06295ce870b07029bfcdb2dce28d959f2815b16f81798")
	Gy = mustHex("483ada7726a3c4655da4fbfc0e1108a8fd17b448a68554199c47d08ffb10d4b8")
	// B is the curve constant.
	B = big.NewInt(7)

	two256 = new(big.Int).Lsh(big.NewInt(1), 256)
)

// Point is an affine point or the point at infinity.
type Point struct {
	X, Y *big.Int
	Inf  bool
}

// Infinity returns the identity.
func Infinity() Point { return Point{Inf: true} }

// G returns the generator.
func G() Point { return Point{X: new(big.Int).Set(Gx), Y: new(big.Int).Set(Gy)} }

func mod(a *big.Int, m *big.Int) *big.Int {
	r := new(big.Int).Mod(a, m)
	return r
}

// Fp helpers.
func fadd(a, b *big.Int) *big.Int { return mod(new(big.Int).Add(a, b), P) }
func fsub(a, b *big.Int) *big.Int { return mod(new(big.Int).Sub(a, b), P) }
func fmul(a, b *big.Int) *big.Int { return mod(new(big.Int).Mul(a, b), P) }
func fneg(a *big.Int) *big.Int    { return mod(new(big.Int).Neg(a), P) }
func finv(a *big.Int) *big.Int {
	// inv0: 0 -> 0
	if mod(a, P).Sign() == 0 {
		return new(big.Int)
	}
	return new(big.Int).ModInverse(mod(a, P), P)
}

// IsSquare is the Euler criterion (0 counts as a square).
func IsSquare(a *big.Int) bool {
	a = mod(a, P)
	if a.Sign() == 0 {
		return true
	}
	e := new(big.Int).Rsh(new(big.Int).Sub(P, big.NewInt(1)), 1)
	return new(big.Int).Exp(a, e, P).Cmp(big.NewInt(1)) == 0
}

// Sqrt returns a square root for p = 3 mod 4 (a^((p+1)/4)); the caller must check it.
func Sqrt(a *big.Int) *big.Int {
	e := new(big.Int).Rsh(new(big.Int).Add(P, big.NewInt(1)), 2)
	return new(big.Int).Exp(mod(a, P), e, P)
}

// CurveRHS returns x^3 + 7 mod p.
func CurveRHS(x *big.Int) *big.Int {
	x3 := fmul(fmul(x, x), x)
	return fadd(x3, B)
}

// OnCurve reports whether the affine pair satisfies y^2 = x^3 + 7 with both coordinates canonical.
func OnCurve(x, y *big.Int) bool {
	if x.Sign() < 0 || y.Sign() < 0 || x.Cmp(P) >= 0 || y.Cmp(P) >= 0 {
		return false
	}
	return fmul(y, y).Cmp(CurveRHS(x)) == 0
}

// Valid reports whether p is the identity or an on-curve point.
func (p Point) Valid() bool { return p.Inf || OnCurve(p.X, p.Y) }

// Equal is group-element equality.
func (p Point) Equal(q Point) bool {
	if p.Inf || q.Inf {
		return p.Inf == q.Inf
	}
	return p.X.Cmp(q.X) == 0 && p.Y.Cmp(q.Y) == 0
}

// Neg returns -p.
func Neg(p Point) Point {
	if p.Inf {
		return Infinity()
	}
	return Point{X: new(big.Int).Set(p.X), Y: fneg(p.Y)}
}

// Add is the textbook chord-and-tangent law with all cases written out.
func Add(p, q Point) Point {
	if p.Inf {
		return q.clone()
	}
	if q.Inf {
		return p.clone()
	}
	if p.X.Cmp(q.X) == 0 {
		if fadd(p.Y, q.Y).Sign() == 0 {
			return Infinity() // P = -Q (covers y = 0, which does not exist on this curve)
		}
		// tangent
		num := fmul(big.NewInt(3), fmul(p.X, p.X))
		den := finv(fmul(big.NewInt(2), p.Y))
		l := fmul(num, den)
		x3 := fsub(fsub(fmul(l, l), p.X), q.X)
		y3 := fsub(fmul(l, fsub(p.X, x3)), p.Y)
		return Point{X: x3, Y: y3}
	}
	l := fmul(fsub(q.Y, p.Y), finv(fsub(q.X, p.X)))
	x3 := fsub(fsub(fmul(l, l), p.X), q.X)
	y3 := fsub(fmul(l, fsub(p.X, x3)), p.Y)
	return Point{X: x3, Y: y3}
}

// Sub returns p - q.
func Sub(p, q Point) Point { return Add(p, Neg(q)) }

// Double returns 2p.
func Double(p Point) Point { return Add(p, p) }

func (p Point) clone() Point {
	if p.Inf {
		return Infinity()
	}
	return Point{X: new(big.Int).Set(p.X), Y: new(big.Int).Set(p.Y)}
}

// Mul is MSB-first double-and-add; k may be any non-negative integer.
func Mul(k *big.Int, p Point) Point {
	r := Infinity()
	for i := k.BitLen() - 1; i >= 0; i-- {
		r = Double(r)
		if k.Bit(i) == 1 {
			r = Add(r, p)
		}
	}
	return r
}

// Bytes32 is the 32-byte big-endian encoding of 0 <= v < 2^256.
func Bytes32(v *big.Int) []byte {
	if v.Sign() < 0 || v.Cmp(two256) >= 0 {
		panic("Bytes32: out of range")
	}
	out := make([]byte, 32)
	v.FillBytes(out)
	return out
}

// OS2IP interprets b as a big-endian integer.
func OS2IP(b []byte) *big.Int { return new(big.Int).SetBytes(b) }

// Compress returns the SEC1 compressed encoding (00 for the identity).
func Compress(p Point) []byte {
	if p.Inf {
		return []byte{0}
	}
	out := make([]byte, 0, 33)
	out = append(out, byte(2+p.Y.Bit(0)))
	return append(out, Bytes32(p.X)...)
}

// Uncompressed returns 04||x||y; it must not be called on the identity.
func Uncompressed(p Point) []byte {
	if p.Inf {
		panic("Uncompressed(identity)")
	}
	out := make([]byte, 0, 65)
	out = append(out, 4)
	out = append(out, Bytes32(p.X)...)
	return append(out, Bytes32(p.Y)...)
}

// Form names a decoder family.
type Form int

// Decoder forms.
const (
	FormAny Form = iota
	FormCompressed
	FormUncompressed
)

// Reject reasons reported by Decode (for evidence classification only).
const (
	ReasonOK       = "accepted"
	ReasonLength   = "length"
	ReasonPrefix   = "prefix"
	ReasonRangeX   = "range-x"
	ReasonRangeY   = "range-y"
	ReasonOffCurve = "not-on-curve"
)

// DecodeCoordinates is the acceptance predicate for an (x, y) pair of 32-byte strings.
func DecodeCoordinates(xb, yb []byte) (Point, string) {
	x, y := OS2IP(xb), OS2IP(yb)
	if x.Cmp(P) >= 0 {
		return Point{}, ReasonRangeX
	}
	if y.Cmp(P) >= 0 {
		return Point{}, ReasonRangeY
	}
	if !OnCurve(x, y) {
		return Point{}, ReasonOffCurve
	}
	return Point{X: x, Y: y}, ReasonOK
}

// Decode is the acceptance predicate of property C03, written from its statement.
func Decode(form Form, data []byte) (Point, string) {
	switch len(data) {
	case 1:
		if form != FormAny {
			return Point{}, ReasonLength
		}
		if data[0] != 0 {
			return Point{}, ReasonPrefix
		}
		return Infinity(), ReasonOK
	case 33:
		if form == FormUncompressed {
			return Point{}, ReasonLength
		}
		if data[0] != 2 && data[0] != 3 {
			return Point{}, ReasonPrefix
		}
		x := OS2IP(data[1:])
		if x.Cmp(P) >= 0 {
			return Point{}, ReasonRangeX
		}
		rhs := CurveRHS(x)
		if !IsSquare(rhs) {
			return Point{}, ReasonOffCurve
		}
		y := Sqrt(rhs)
		if fmul(y, y).Cmp(rhs) != 0 {
			panic("ref: sqrt inconsistent")
		}
		if y.Bit(0) != uint(data[0]&1) {
			y = fneg(y)
		}
		return Point{X: x, Y: y}, ReasonOK
	case 65:
		if form == FormCompressed {
			return Point{}, ReasonLength
		}
		if data[0] != 4 {
			return Point{}, ReasonPrefix
		}
		return DecodeCoordinates(data[1:33], data[33:])
	default:
		return Point{}, ReasonLength
	}
}

// String renders a point for messages.
func (p Point) String() string {
	if p.Inf {
		return "O"
	}
	return fmt.Sprintf("(%064x,%064x)", p.X, p.Y)
}

// Hex returns hex of the compressed form.
func (p Point) Hex() string { return hex.EncodeToString(Compress(p)) }

// LiftX returns the two points with abscissa x, if any (even y first).
func LiftX(x *big.Int) (Point, Point, bool) {
	if x.Sign() < 0 || x.Cmp(P) >= 0 {
		return Point{}, Point{}, false
	}
	rhs := CurveRHS(x)
	if !IsSquare(rhs) {
		return Point{}, Point{}, false
	}
	y := Sqrt(rhs)
	if y.Bit(0) == 1 {
		y = fneg(y)
	}
	return Point{X: new(big.Int).Set(x), Y: y}, Point{X: new(big.Int).Set(x), Y: fneg(y)}, true
}

// Beta is a primitive cube root of unity in F_p: (beta*x, y) is on the curve whenever (x, y) is.
var Beta = new(big.Int).Exp(big.NewInt(2), new(big.Int).Div(new(big.Int).Sub(P, big.NewInt(1)), big.NewInt(3)), P)

// Endo returns (beta*x, y).
func Endo(p Point) Point {
	if p.Inf {
		return p
	}
	return Point{X: fmul(Beta, p.X), Y: new(big.Int).Set(p.Y)}
}

// SameBytes is a convenience.
func SameBytes(a, b []byte) bool { return bytes.Equal(a, b) }

// FAdd etc. are exported thin wrappers for the field-level oracles.
func FAdd(a, b *big.Int) *big.Int { return fadd(a, b) }

// FSub returns a-b mod p.
func FSub(a, b *big.Int) *big.Int { return fsub(a, b) }

// FMul returns a*b mod p.
func FMul(a, b *big.Int) *big.Int { return fmul(a, b) }

// FNeg returns -a mod p.
func FNeg(a *big.Int) *big.Int { return fneg(a) }

// FInv0 returns 1/a mod p with 0 -> 0.
func FInv0(a *big.Int) *big.Int { return finv(a) }
