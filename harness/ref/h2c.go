package ref

import (
	"crypto/sha256"
	"math/big"
)

// RFC 9380 section 8.7 / E.1 parameters for secp256k1_XMD:SHA-256_SSWU_*.
var (
	IsoA = mustHex("3f8731abdd661adca08a5558f0f5d272e953d363cb6f0e5d405447c01a444533")
	IsoB = big.NewInt(1771)
	// SswuZ is Z = -11 mod p.
	SswuZ = mod(big.NewInt(-11), P)

	k10 = mustHex("8e38e38e38e38e38e38e38e38e38e38e38e38e38e38e38e38e38e38daaaaa8c7")
	k11 = mustHex("07d3d4c80bc321d5b9f315cea7fd44c5d595d2fc0bf63b92dfff1044f17c6581")
	k12 = mustHex("534c328d23f234e6e2a413deca25caece4506144037c40314ecbd0b53d9dd262")
	k13 = mustHex("8e38e38e38e38e38e38e38e38e38e38e38e38e38e38e38e38e38e38daaaaa88c")
	k20 = mustHex("d35771193d94918a9ca34ccbb7b640dd86cd409542f8487d9fe6b745781eb49b")
	k21 = mustHex("edadc6f64383dc1df7c4b2d51b54225406d36b641f5e41bbc52a56612a8c6d14")
	k30 = mustHex("4bda12f684bda12f684bda12f684bda12f684bda12f684bda12f684b8e38e23c")
	k31 = mustHex("c75e0c32d5cb7c0fa9d0a54b12a0a6d5647ab046d686da6fdffc90fc201d71a3")
	k32 = mustHex("29a6194691f91a73715209ef6512e576722830a201be2018a765e85a9ecee931")
	k33 = mustHex("2f684bda12f684bda12f684bda12f684bda12f684bda12f684bda12f38e38d84")
	k40 = mustHex("fffffffffffffffffffffffffffffffffffffffffffffffffffffffefffff93b")
	k41 = mustHex("7a06534bb8bdb49fd5e9e6632722c2989467c1bfc8e8d978dfb425d2685c2573")
	k42 = mustHex("6484aa716545ca2cf3a70c3fa8fe337e0a3d21162f0d6299a7bf8192bfd2a76f")
)

const (
	oversizePrefix = "H2C-OVERSIZE-DST-"
	hashLen        = 32
	blockLen       = 64
	// L is the hash_to_field security length for both fields.
	L = 48
)

func h(parts ...[]byte) []byte {
	st := sha256.New()
	for _, p := range parts {
		st.Write(p)
	}
	return st.Sum(nil)
}

// XMD is expand_message_xmd with SHA-256 (RFC 9380 section 5.3.1) including the oversize-DST rule of 5.3.3.
// It panics on parameters the RFC makes the function abort on; callers only use legal parameters.
func XMD(msg, dst []byte, length int) []byte {
	if len(dst) == 0 {
		panic("ref.XMD: empty DST")
	}
	if len(dst) > 255 {
		dst = h([]byte(oversizePrefix), dst)
	}
	ell := (length + hashLen - 1) / hashLen
	if ell > 255 || length > 65535 {
		panic("ref.XMD: length too large")
	}
	dstPrime := make([]byte, 0, len(dst)+1)
	dstPrime = append(dstPrime, dst...)
	dstPrime = append(dstPrime, byte(len(dst)))
	zPad := make([]byte, blockLen)
	lib := []byte{byte(length >> 8), byte(length)}
	b0 := h(zPad, msg, lib, []byte{0}, dstPrime)
	bi := h(b0, []byte{1}, dstPrime)
	out := append([]byte{}, bi...)
	for i := 2; i <= ell; i++ {
		x := make([]byte, hashLen)
		for j := range x {
			x[j] = b0[j] ^ bi[j]
		}
		bi = h(x, []byte{byte(i)}, dstPrime)
		out = append(out, bi...)
	}
	return out[:length]
}

// HashToField returns count elements of F_m (m prime, L = 48, extension degree 1).
func HashToField(msg, dst []byte, count int, m *big.Int) []*big.Int {
	uniform := XMD(msg, dst, count*L)
	out := make([]*big.Int, count)
	for i := range out {
		out[i] = mod(OS2IP(uniform[L*i:L*(i+1)]), m)
	}
	return out
}

// HashToScalar is hash_to_field over the group order with count = 1.
func HashToScalar(msg, dst []byte) *big.Int { return HashToField(msg, dst, 1, N)[0] }

// Sgn0 is sgn0 for m = 1.
func Sgn0(a *big.Int) uint { return mod(a, P).Bit(0) }

// SSWUTrace records which branches the map took, for evidence classification.
type SSWUTrace struct {
	Exceptional bool // tv1 == 0
	Gx1Square   bool
	SignFlipped bool
}

func isoG(x *big.Int) *big.Int {
	// x^3 + A'x + B'
	return fadd(fadd(fmul(fmul(x, x), x), fmul(IsoA, x)), IsoB)
}

// OnIso reports whether (x, y) is on E': y^2 = x^3 + A'x + B'.
func OnIso(x, y *big.Int) bool { return fmul(y, y).Cmp(isoG(x)) == 0 }

// SSWU is map_to_curve_simple_swu of RFC 9380 section 6.6.2 (the non-straight-line description) onto E'.
func SSWU(u *big.Int) (x, y *big.Int, tr SSWUTrace) {
	u = mod(u, P)
	u2 := fmul(u, u)
	zu2 := fmul(SswuZ, u2)
	tv1 := finv(fadd(fmul(zu2, zu2), zu2)) // inv0(Z^2 u^4 + Z u^2)
	var x1 *big.Int
	if tv1.Sign() == 0 {
		tr.Exceptional = true
		x1 = fmul(IsoB, finv(fmul(SswuZ, IsoA)))
	} else {
		x1 = fmul(fmul(fneg(IsoB), finv(IsoA)), fadd(big.NewInt(1), tv1))
	}
	gx1 := isoG(x1)
	x2 := fmul(zu2, x1)
	gx2 := isoG(x2)
	if IsSquare(gx1) {
		tr.Gx1Square = true
		x, y = x1, Sqrt(gx1)
	} else {
		x, y = x2, Sqrt(gx2)
	}
	if fmul(y, y).Cmp(isoG(x)) != 0 {
		panic("ref.SSWU: no square root; model inconsistent")
	}
	if Sgn0(u) != Sgn0(y) {
		tr.SignFlipped = true
		y = fneg(y)
	}
	return x, y, tr
}

// IsoMap is the 3-isogeny E' -> secp256k1 of RFC 9380 appendix E.1.
func IsoMap(x, y *big.Int) Point {
	x2 := fmul(x, x)
	x3 := fmul(x2, x)
	xNum := fadd(fadd(fadd(fmul(k13, x3), fmul(k12, x2)), fmul(k11, x)), k10)
	xDen := fadd(fadd(x2, fmul(k21, x)), k20)
	yNum := fadd(fadd(fadd(fmul(k33, x3), fmul(k32, x2)), fmul(k31, x)), k30)
	yDen := fadd(fadd(fadd(x3, fmul(k42, x2)), fmul(k41, x)), k40)
	if xDen.Sign() == 0 || yDen.Sign() == 0 {
		return Infinity()
	}
	return Point{X: fmul(xNum, finv(xDen)), Y: fmul(y, fmul(yNum, finv(yDen)))}
}

// MapToCurve is map_to_curve for the suite: SSWU on E' followed by the isogeny.
func MapToCurve(u *big.Int) (Point, SSWUTrace) {
	x, y, tr := SSWU(u)
	return IsoMap(x, y), tr
}

// H2CTrace is the branch trace of a hash_to_curve / encode_to_curve evaluation.
type H2CTrace struct {
	U  []*big.Int
	Q  []Point
	Tr []SSWUTrace
}

// HashToCurve is hash_to_curve of secp256k1_XMD:SHA-256_SSWU_RO_ (the sum is taken on secp256k1).
func HashToCurve(msg, dst []byte) (Point, H2CTrace) {
	u := HashToField(msg, dst, 2, P)
	q0, t0 := MapToCurve(u[0])
	q1, t1 := MapToCurve(u[1])
	return Add(q0, q1), H2CTrace{U: u, Q: []Point{q0, q1}, Tr: []SSWUTrace{t0, t1}}
}

// EncodeToCurve is encode_to_curve of secp256k1_XMD:SHA-256_SSWU_NU_.
func EncodeToCurve(msg, dst []byte) (Point, H2CTrace) {
	u := HashToField(msg, dst, 1, P)
	q0, t0 := MapToCurve(u[0])
	return q0, H2CTrace{U: u, Q: []Point{q0}, Tr: []SSWUTrace{t0}}
}

// ExceptionalU returns the three field elements with Z^2 u^4 + Z u^2 = 0: 0 and +-sqrt(-1/Z).
func ExceptionalU() []*big.Int {
	r := Sqrt(finv(fneg(SswuZ))) // sqrt(1/11)
	if fmul(fmul(r, r), fneg(SswuZ)).Cmp(big.NewInt(1)) != 0 {
		panic("ref: -1/Z is not a square")
	}
	return []*big.Int{new(big.Int), r, fneg(r)}
}
