package ref

import (
	"embed"
	"encoding/hex"
	"encoding/json"
	"fmt"
	"math/big"
	"strings"
)

//go:embed testdata/*.json
var vectorFS embed.FS

type vecPoint struct {
	X string `json:"x"`
	Y string `json:"y"`
}

type vecFile struct {
	Ciphersuite  string `json:"ciphersuite"`
	Dst          string `json:"dst"`
	RandomOracle bool   `json:"randomOracle"`
	Vectors      []struct {
		P   vecPoint `json:"P"`
		Q0  vecPoint `json:"Q0"`
		Q1  vecPoint `json:"Q1"`
		Q   vecPoint `json:"Q"`
		Msg string   `json:"msg"`
		U   []string `json:"u"`
	} `json:"vectors"`
}

func h0x(s string) *big.Int { return mustHex(strings.TrimPrefix(s, "0x")) }

func (v vecPoint) point() Point { return Point{X: h0x(v.X), Y: h0x(v.Y)} }

// xmdVectors: RFC 9380 appendix K.1 (short DST) and K.2 (256-byte DST), len_in_bytes = 0x20.
// Expected values are pinned by their first 8 and last 6 hex digits (56 bits).
var xmdVectors = []struct {
	long   bool
	msg    string
	prefix string
	suffix string
}{
	{false, "", "68a985b8", "f07235"},
	{false, "abc", "d8ccab23", "605615"},
	{true, "", "e8dc0c8b", "8a3ed3"},
	{true, "abc", "52dbf4f3", "6bbb12"},
}

const (
	k1DST = "QUUX-V01-CS02-with-expander-SHA256-128"
)

func k2DST() string {
	s := "QUUX-V01-CS02-with-expander-SHA256-128-long-DST-"
	return s + strings.Repeat("1", 256-len(s))
}

// SelfTest validates the model against RFC 9380 vectors and group facts. A failure is a harness error
// (exit 2), never a property violation.
func SelfTest() error {
	// group facts
	g := G()
	if !g.Valid() {
		return fmt.Errorf("G not on curve")
	}
	if !Mul(N, g).Inf {
		return fmt.Errorf("[n]G != O")
	}
	if !Mul(new(big.Int).Sub(N, big.NewInt(1)), g).Equal(Neg(g)) {
		return fmt.Errorf("[n-1]G != -G")
	}
	acc := Infinity()
	for k := int64(1); k <= 16; k++ {
		acc = Add(acc, g)
		if !acc.Equal(Mul(big.NewInt(k), g)) || !acc.Valid() {
			return fmt.Errorf("[%d]G: repeated addition disagrees with double-and-add", k)
		}
	}
	// known multiples
	if Mul(big.NewInt(2), g).Hex() != "02c6047f9441ed7d6d3045406e95c07cd85c778e4b8cef3ca7abac09b95c709ee5" {
		return fmt.Errorf("[2]G wrong: %s", Mul(big.NewInt(2), g).Hex())
	}
	if Mul(big.NewInt(3), g).Hex() != "02f9308a019258c31049344f85f89d5229b531c845836f99b08601f113bce036f9" {
		return fmt.Errorf("[3]G wrong: %s", Mul(big.NewInt(3), g).Hex())
	}
	b3 := fmul(fmul(Beta, Beta), Beta)
	if b3.Cmp(big.NewInt(1)) != 0 || Beta.Cmp(big.NewInt(1)) == 0 {
		return fmt.Errorf("beta is not a primitive cube root of unity")
	}
	if !Endo(g).Valid() {
		return fmt.Errorf("endo(G) off curve")
	}
	// decode/encode consistency of the model itself
	for _, p := range []Point{g, Neg(g), Mul(big.NewInt(7), g)} {
		q, r := Decode(FormAny, Compress(p))
		if r != ReasonOK || !q.Equal(p) {
			return fmt.Errorf("model compress/decode round trip")
		}
		q, r = Decode(FormAny, Uncompressed(p))
		if r != ReasonOK || !q.Equal(p) {
			return fmt.Errorf("model uncompressed round trip")
		}
	}
	// expander vectors
	for _, v := range xmdVectors {
		dst := k1DST
		if v.long {
			dst = k2DST()
		}
		got := hex.EncodeToString(XMD([]byte(v.msg), []byte(dst), 32))
		if !strings.HasPrefix(got, v.prefix) || !strings.HasSuffix(got, v.suffix) {
			return fmt.Errorf("expand_message_xmd vector (long=%v, msg=%q): got %s want %s..%s", v.long, v.msg, got, v.prefix, v.suffix)
		}
	}
	// hash-to-curve vectors
	files, err := vectorFS.ReadDir("testdata")
	if err != nil {
		return err
	}
	nvec := 0
	for _, f := range files {
		raw, err := vectorFS.ReadFile("testdata/" + f.Name())
		if err != nil {
			return err
		}
		var vf vecFile
		if err := json.Unmarshal(raw, &vf); err != nil {
			return err
		}
		for _, v := range vf.Vectors {
			var (
				p  Point
				tr H2CTrace
			)
			if vf.RandomOracle {
				p, tr = HashToCurve([]byte(v.Msg), []byte(vf.Dst))
			} else {
				p, tr = EncodeToCurve([]byte(v.Msg), []byte(vf.Dst))
			}
			if !p.Equal(v.P.point()) {
				return fmt.Errorf("%s msg=%q: P mismatch", vf.Ciphersuite, v.Msg)
			}
			for i, u := range v.U {
				if tr.U[i].Cmp(h0x(u)) != 0 {
					return fmt.Errorf("%s msg=%q: u[%d] mismatch", vf.Ciphersuite, v.Msg, i)
				}
			}
			if vf.RandomOracle {
				if !tr.Q[0].Equal(v.Q0.point()) || !tr.Q[1].Equal(v.Q1.point()) {
					return fmt.Errorf("%s msg=%q: Q0/Q1 mismatch", vf.Ciphersuite, v.Msg)
				}
			} else if v.Q.X != "" && !tr.Q[0].Equal(v.Q.point()) {
				return fmt.Errorf("%s msg=%q: Q mismatch", vf.Ciphersuite, v.Msg)
			}
			nvec++
		}
	}
	if nvec != 10 {
		return fmt.Errorf("expected 10 hash-to-curve vectors, found %d", nvec)
	}
	// exceptional inputs exist and are mapped onto both curves
	for _, u := range ExceptionalU() {
		x, y, tr := SSWU(u)
		if !tr.Exceptional || !OnIso(x, y) || !IsoMap(x, y).Valid() {
			return fmt.Errorf("exceptional u=%x mishandled by the model", u)
		}
	}
	return nil
}
