// Package race holds C16: generated concurrent workloads over shared read-only arguments, run under the
// Go race detector (the driver builds this package with -race) and compared with sequential results.
package race

import (
	"bytes"
	"crypto/rand"
	"encoding/hex"
	"encoding/json"
	"fmt"
	"io"
	"os"
	"path/filepath"
	"runtime"
	"runtime/debug"
	"runtime/trace"
	"sync"
	"sync/atomic"
	"testing"
	"time"

	"github.com/bytemare/secp256k1"
	"github.com/bytemare/secp256k1/verifharness/gen"
	"github.com/bytemare/secp256k1/verifharness/pt"
	"github.com/bytemare/secp256k1/verifharness/ref"
	"pgregory.net/rapid"
)

func TestMain(m *testing.M) { gen.Main(m) }

// TestReplay replays $VERIF_REPLAY (a data race makes the process exit with code 66).
func TestReplay(t *testing.T) { gen.ReplayMain(t) }

type sv struct {
	Hex string `json:"v"`
}

type caseC16 struct {
	E      []pt.Spec  `json:"elements"` // shared elements
	S      []string   `json:"scalars"`  // shared scalars (canonical hex)
	Msg    string     `json:"msg"`
	Dst    string     `json:"dst"`
	Dst2   string     `json:"dst2,omitempty"` // a second shared DST (hashing calls with odd J use it)
	MsgLay gen.Layout `json:"msg_layout"`
	DstLay gen.Layout `json:"dst_layout"`
	Calls  []call     `json:"calls"`
	Order  [][]int    `json:"order"` // per goroutine: the order in which it runs the calls
	// Fan > 1: every goroutine of Order exists Fan times (hundreds of goroutines, far more than Ps: calls get preempted half-way,
	// pools and free lists sized for "a few" callers run dry). Rep > 1: every goroutine runs its list Rep times (long overlap of
	// the same functions: contention paths such as TryLock fall-backs are taken).
	Fan int `json:"fan,omitempty"`
	Rep int `json:"rep,omitempty"`
	// TailWriter: while the calls run, another goroutine (the owner of the buffers the shared msg/DST slices were cut from) keeps
	// rewriting the bytes AROUND the shared slices - before them and in their spare capacity - never the slices themselves. The
	// callee was handed len(slice) bytes; anything it reads beyond is a data race with that owner.
	TailWriter bool `json:"tail_writer,omitempty"`
	// MsgLen > 0: the shared message is MsgLen bytes of a pattern instead of Msg (megabytes: many goroutines hash the same large
	// message under the same DST at the same time). Knobs: another goroutine keeps switching runtime facilities on and off during
	// the calls (the execution tracer, the GC percentage, GOMAXPROCS, a forced collection).
	MsgLen int  `json:"msg_len,omitempty"`
	Knobs  bool `json:"knobs,omitempty"`
}

type call struct {
	Fn   string `json:"fn"`
	I    int    `json:"i,omitempty"` // index of the shared element / scalar used as argument
	J    int    `json:"j,omitempty"`
	Cond uint64 `json:"cond,omitempty"`
}

var callFns = []string{"HashToGroup", "EncodeToGroup", "HashToScalar", "E.Add", "E.Subtract", "E.Set", "E.Equal", "E.Multiply", "E.Decode", "E.DecodeUncompressed",
	"S.Add", "S.Subtract", "S.Multiply", "S.Set", "S.Equal", "S.LessOrEqual", "S.Pow", "S.CSelect", "S.Decode", "Base", "NewElement", "Identity", "Order", "Random", "Base.Multiply", "E.DecodeHex", "S.DecodeHex", "E.DecodeHex-bad", "S.DecodeHex-bad",
	"HashToGroup", "HashToScalar", "EncodeToGroup", "E.Decode-neg", "E.Decode", "Shared.observe", "Shared.observe", "Shared.S.observe"}

type env struct {
	E        []*secp256k1.Element
	S        []*secp256k1.Scalar
	msg, dst []byte
	dst2     []byte
	encE     [][]byte // shared encodings of the shared elements
	uncE     [][]byte
	encS     [][]byte
	tmplE    *secp256k1.Element
	tmplS    *secp256k1.Scalar
	backings [][]byte
	snaps    [][]byte
	inner    [][2]int // per backing: [start, end) of the shared slice inside it
}

func buildEnv(c caseC16) (*env, error) {
	ev := &env{}
	for _, sp := range c.E {
		b, err := pt.Build(sp)
		if err != nil {
			return nil, err
		}
		ev.E = append(ev.E, b.E)
		ev.encE = append(ev.encE, b.E.Encode())
		ev.uncE = append(ev.uncE, b.E.EncodeUncompressed())
	}
	for _, h := range c.S {
		s := secp256k1.NewScalar()
		if err := s.Decode(ref.Bytes32(gen.B(h))); err != nil {
			return nil, err
		}
		ev.S = append(ev.S, s)
		ev.encS = append(ev.encS, s.Encode())
	}
	ev.tmplE = secp256k1.Base().Double()
	ev.tmplS = secp256k1.NewScalar().SetUInt64(0xC16)
	ev.tmplE.Multiply(secp256k1.NewScalar().SetUInt64(77)).Add(secp256k1.Base()).Subtract(secp256k1.Base())
	_ = ev.tmplE.Encode()
	_ = ev.tmplE.Equal(secp256k1.Base())
	_ = secp256k1.Base().Subtract(ev.tmplE)
	ev.tmplS.Multiply(ev.tmplS).Invert().Pow(secp256k1.NewScalar().SetUInt64(3))
	_ = ev.tmplS.Bits()
	_ = ev.tmplS.Encode()
	_ = ev.tmplS.LessOrEqual(ev.tmplS)
	var mb, db []byte
	msgData := gen.HexBytes(c.Msg)
	if c.MsgLen > 0 {
		msgData = make([]byte, c.MsgLen)
		for i := range msgData {
			msgData[i] = byte(i*13 + c.MsgLen)
		}
	}
	ev.msg, mb = gen.Place(msgData, c.MsgLay)
	ev.dst, db = gen.Place(gen.HexBytes(c.Dst), c.DstLay)
	ev.backings = [][]byte{mb, db}
	ev.inner = [][2]int{{len(mb) - cap(ev.msg), len(mb) - cap(ev.msg) + len(ev.msg)}, {len(db) - cap(ev.dst), len(db) - cap(ev.dst) + len(ev.dst)}}
	ev.dst2 = ev.dst
	if c.Dst2 != "" {
		var db2 []byte
		ev.dst2, db2 = gen.Place(gen.HexBytes(c.Dst2), c.DstLay)
		ev.backings = append(ev.backings, db2)
		ev.inner = append(ev.inner, [2]int{len(db2) - cap(ev.dst2), len(db2) - cap(ev.dst2) + len(ev.dst2)})
	}
	for _, b := range ev.backings {
		ev.snaps = append(ev.snaps, append([]byte(nil), b...))
	}
	return ev, nil
}

// run executes one call on a private receiver and returns an observable result.
func (ev *env) run(c call) []byte {
	e := secp256k1.Base().Double() // private receivers, Z != 1
	s := secp256k1.NewScalar().SetUInt64(0xC16)
	if c.Cond%2 == 1 {
		// ... or Go VALUE COPIES of template objects that took part in every kind of operation before (whatever such an
		// object points to behind its coordinates is then shared by the copies, which are distinct receivers)
		ec, sc := *ev.tmplE, *ev.tmplS
		e, s = &ec, &sc
	}
	ei := ev.E[c.I%len(ev.E)]
	si := ev.S[c.I%len(ev.S)]
	sj := ev.S[c.J%len(ev.S)]
	dst := ev.dst
	if c.J%2 == 1 {
		dst = ev.dst2
	}
	switch c.Fn {
	// the caller owns what a call returns and goes on computing with it (H(m) + P, h + k): a returned object that is handed to
	// two callers shows as a race and as a different result
	case "HashToGroup":
		return secp256k1.HashToGroup(ev.msg, dst).Add(e).Encode()
	case "EncodeToGroup":
		return secp256k1.EncodeToGroup(ev.msg, dst).Add(e).Encode()
	case "HashToScalar":
		return secp256k1.HashToScalar(ev.msg, dst).Add(s).Encode()
	case "E.Add":
		return e.Add(ei).Encode()
	case "E.Subtract":
		return e.Subtract(ei).Encode()
	case "E.Set":
		return e.Set(ei).Encode()
	case "E.Equal":
		return []byte{byte(e.Equal(ei))}
	case "E.Multiply":
		return e.Multiply(si).Encode()
	case "E.DecodeHex":
		if err := e.DecodeHex(hex.EncodeToString(ev.encE[c.I%len(ev.encE)])); err != nil {
			return []byte("error:" + err.Error())
		}
		return e.EncodeUncompressed()
	case "S.DecodeHex":
		if err := s.DecodeHex(hex.EncodeToString(ev.encS[c.I%len(ev.encS)])); err != nil {
			return []byte("error:" + err.Error())
		}
		return s.Encode()
	case "E.DecodeHex-bad": // error paths run concurrently too (malformed hex, odd length)
		h := hex.EncodeToString(ev.encE[c.I%len(ev.encE)])
		bad := []string{"zz" + h[2:], h[:len(h)-1], h + "0g"}[c.J%3]
		if err := e.DecodeHex(bad); err == nil {
			return []byte("accepted malformed hex")
		}
		return e.Encode()
	case "S.DecodeHex-bad":
		h := hex.EncodeToString(ev.encS[c.I%len(ev.encS)])
		bad := []string{"zz" + h[2:], h[:len(h)-1], h + "0g"}[c.J%3]
		if err := s.DecodeHex(bad); err == nil {
			return []byte("accepted malformed hex")
		}
		return s.Encode()
	case "Base.Multiply":
		return secp256k1.Base().Multiply(si).Encode()
	case "E.Decode":
		if err := e.Decode(ev.encE[c.I%len(ev.encE)]); err != nil {
			return []byte("error:" + err.Error())
		}
		return e.Encode()
	case "E.Decode-neg":
		// the same abscissa with the other parity byte: concurrent decodings of P and -P
		enc := append([]byte(nil), ev.encE[c.I%len(ev.encE)]...)
		if len(enc) == 33 {
			enc[0] ^= 1
		}
		if err := e.Decode(enc); err != nil {
			return []byte("error:" + err.Error())
		}
		return e.Encode()
	case "Shared.observe":
		// the SHARED element is the receiver of read-only methods: many goroutines encode, copy, compare and print the same object
		sh := ev.E[c.I%len(ev.E)]
		out := append(sh.Encode(), sh.EncodeUncompressed()...)
		out = append(out, sh.XCoordinate()...)
		out = append(out, []byte(sh.Hex())...)
		mb, _ := sh.MarshalBinary()
		out = append(out, mb...)
		out = append(out, sh.Copy().Encode()...)
		out = append(out, byte(sh.Equal(ev.E[c.J%len(ev.E)])), byte(b2i(sh.IsIdentity())))
		cp := *sh
		return append(out, cp.Encode()...)
	case "Shared.S.observe":
		sh := ev.S[c.I%len(ev.S)]
		out := append(sh.Encode(), []byte(sh.Hex())...)
		bits := sh.Bits()
		out = append(out, bits[:]...)
		out = append(out, sh.Copy().Encode()...)
		out = append(out, byte(sh.Equal(ev.S[c.J%len(ev.S)])), byte(sh.LessOrEqual(ev.S[c.J%len(ev.S)])), byte(b2i(sh.IsZero())))
		cp := *sh
		return append(out, cp.Encode()...)
	case "E.DecodeUncompressed":
		if err := e.Decode(ev.uncE[c.I%len(ev.uncE)]); err != nil {
			return []byte("error:" + err.Error())
		}
		return e.EncodeUncompressed()
	case "S.Add":
		return s.Add(si).Encode()
	case "S.Subtract":
		return s.Subtract(si).Encode()
	case "S.Multiply":
		return s.Multiply(si).Encode()
	case "S.Set":
		return s.Set(si).Encode()
	case "S.Equal":
		return []byte{byte(s.Equal(si))}
	case "S.LessOrEqual":
		return []byte{byte(s.LessOrEqual(si))}
	case "S.Pow":
		return s.Pow(si).Encode()
	case "S.CSelect":
		if err := s.CSelect(c.Cond, si, sj); err != nil {
			return []byte("error:" + err.Error())
		}
		return s.Encode()
	case "S.Decode":
		if err := s.Decode(ev.encS[c.I%len(ev.encS)]); err != nil {
			return []byte("error:" + err.Error())
		}
		return s.Encode()
	case "Base":
		return secp256k1.Base().Encode()
	case "NewElement":
		return secp256k1.NewElement().Add(ei).Encode()
	case "Identity":
		return e.Identity().EncodeUncompressed()
	case "Order":
		return secp256k1.Order()
	case "Random":
		// every goroutine has its own deterministic entropy stream (goroutineEntropy): the result must be the first acceptable
		// block of the bytes THIS call was given, whatever other goroutines and the collector do meanwhile
		gid := curGID()
		growStack(24) // a stack that grew before and is almost unused now may be moved by the collector during the call
		entropy.begin(gid)
		s.Random()
		given := entropy.end(gid)
		var want []byte
		for off := 0; off+32 <= len(given); off += 32 {
			if v := new(bigInt).SetBytes(given[off : off+32]); v.Sign() != 0 && v.Cmp(ref.N) != 0 {
				want = ref.Bytes32(v.Mod(v, ref.N))
				break
			}
		}
		if got := s.Encode(); want == nil || !bytes.Equal(got, want) {
			return []byte(fmt.Sprintf("Random returned %x, the first acceptable block of the %d bytes it was given is %x", got, len(given), want))
		}
		return []byte("first acceptable block")
	}
	panic("unknown call " + c.Fn)
}

var currentCasePath string

func runC16(c caseC16, o *gen.Obs) error {
	savedEntropy := rand.Reader
	rand.Reader = entropy // (one case at a time: the source is process-wide)
	defer func() { rand.Reader = savedEntropy }()
	if currentCasePath != "" {
		// record the case before running it: a detected race terminates the process (exit code 66)
		raw, _ := json.Marshal(map[string]any{"property": "C16", "check": "C16/concurrent", "error": "data race reported by the Go race detector", "class": "data-race", "case": c})
		_ = os.WriteFile(currentCasePath, raw, 0o644)
	}
	ev, err := buildEnv(c)
	if err != nil {
		o.Class("skipped:builder-error")
		return nil
	}
	// The concurrent phase runs FIRST and the sequential reference results are computed afterwards, so that whatever the
	// package initialises lazily is initialised under concurrency (a sequential warm-up would hide an unsynchronised
	// first use). Building the environment only decodes, encodes and adds.
	for _, cl := range c.Calls {
		o.Class("call:" + cl.Fn)
	}
	hashers := 0
	for _, cl := range c.Calls {
		if cl.Fn == "HashToGroup" || cl.Fn == "EncodeToGroup" || cl.Fn == "HashToScalar" {
			hashers++
		}
	}
	o.ClassIf(hashers > 0 && c.DstLay.Post > 0 && len(c.Order) >= 2, "shared-spare-capacity-dst")
	o.ClassIf(hashers >= 2 && len(c.Dst) > 510 && len(c.Dst2) > 510 && c.Dst != c.Dst2, "two-oversize-dsts")
	o.ClassIf(len(c.Order) >= 2, "goroutines>=2")
	o.NonTrivialIf(len(c.Order) >= 2 && len(c.Calls) > 0)
	fan, rep := max(1, c.Fan), max(1, c.Rep)
	orders := make([][]int, 0, len(c.Order)*fan)
	for f := 0; f < fan; f++ {
		orders = append(orders, c.Order...)
	}
	o.ClassIf(len(orders) > 128, "goroutines>128")
	o.ClassIf(rep > 1, "repeated-lists")
	got := make([][][]byte, len(orders))
	unstable := make([]string, len(orders))
	start := make(chan struct{})
	var wg sync.WaitGroup
	for g, order := range orders {
		got[g] = make([][]byte, len(c.Calls))
		wg.Add(1)
		go func(g int, order []int) {
			defer wg.Done()
			<-start
			for r := 0; r < rep; r++ {
				for _, idx := range order {
					i := idx % len(c.Calls)
					res := ev.run(c.Calls[i])
					if r > 0 && !bytes.Equal(res, got[g][i]) && unstable[g] == "" {
						unstable[g] = fmt.Sprintf("%s returned %x in repetition %d and %x before", c.Calls[i].Fn, res, r, got[g][i])
						continue // keep the first result for the comparison with the run-alone result
					}
					got[g][i] = res
				}
			}
		}(g, order)
	}
	stop, writerDone := make(chan struct{}), make(chan struct{})
	if c.TailWriter {
		o.Class("tail-writer")
		go func() {
			defer close(writerDone)
			<-start
			for round := 0; ; round++ {
				select {
				case <-stop:
					return
				default:
				}
				for bi, b := range ev.backings {
					in := ev.inner[bi]
					n := in[1] - in[0]
					for i := range b {
						if i >= in[0] && i < in[1] {
							continue // never the shared slice itself
						}
						switch round % 3 {
						case 0:
							b[i] = byte(n)
						case 1:
							b[i] = 0
						default:
							b[i] = gen.Canary(i)
						}
					}
				}
				runtime.Gosched()
			}
		}()
	} else {
		close(writerDone)
	}
	knobsDone := make(chan struct{})
	if c.Knobs {
		o.Class("runtime-knobs-toggled")
		go func() {
			defer close(knobsDone)
			<-start
			procs := runtime.GOMAXPROCS(0)
			for round := 0; ; round++ {
				select {
				case <-stop:
					runtime.GOMAXPROCS(procs)
					return
				default:
				}
				switch round % 4 {
				case 0:
					if trace.Start(io.Discard) == nil {
						time.Sleep(200 * time.Microsecond)
						trace.Stop()
					}
				case 1:
					old := debug.SetGCPercent(10)
					runtime.Gosched()
					debug.SetGCPercent(old)
				case 2:
					runtime.GOMAXPROCS(1 + round%procs)
				default:
					runtime.GC()
				}
				time.Sleep(100 * time.Microsecond)
			}
		}()
	} else {
		close(knobsDone)
	}
	close(start)
	wg.Wait()
	close(stop)
	<-writerDone
	<-knobsDone
	if c.TailWriter {
		for bi, b := range ev.backings { // put the surroundings back, the shared slices must be untouched
			in := ev.inner[bi]
			copy(b[:in[0]], ev.snaps[bi][:in[0]])
			copy(b[in[1]:], ev.snaps[bi][in[1]:])
		}
	}
	for g, u := range unstable {
		if u != "" {
			return gen.Fail("concurrent/result-differs", "goroutine %d: %s", g, u)
		}
	}
	want := make([][]byte, len(c.Calls))
	for i, cl := range c.Calls {
		want[i] = ev.run(cl)
	}
	for g, order := range orders {
		for _, idx := range order {
			i := idx % len(c.Calls)
			if !bytes.Equal(got[g][i], want[i]) {
				return gen.Fail("concurrent/result-differs", "goroutine %d: %s returned %x concurrently, %x alone", g, c.Calls[i].Fn, got[g][i], want[i])
			}
		}
	}
	for i, b := range ev.backings {
		if !bytes.Equal(b, ev.snaps[i]) {
			return gen.Fail("concurrent/shared-slice-modified", "shared slice %d was modified", i)
		}
	}
	for i, e := range ev.E {
		if !bytes.Equal(e.Encode(), ev.encE[i]) {
			return gen.Fail("concurrent/shared-element-modified", "shared element %d changed", i)
		}
	}
	for i, s := range ev.S {
		if !bytes.Equal(s.Encode(), ev.encS[i]) {
			return gen.Fail("concurrent/shared-scalar-modified", "shared scalar %d changed", i)
		}
	}
	return nil
}

var c16 = gen.Register(&gen.Check[caseC16]{
	Name: "C16/concurrent",
	Gen: func(t *rapid.T) caseC16 {
		c := caseC16{MsgLay: gen.LayoutGen().Draw(t, "ml"), DstLay: gen.LayoutGen().Draw(t, "dl")}
		for i := 0; i < 2; i++ {
			c.E = append(c.E, pt.SpecGen(2, false).Draw(t, "e"))
			c.S = append(c.S, gen.H(gen.Int(ref.N).Draw(t, "s")))
		}
		c.Msg = hex.EncodeToString(gen.Bytes(0, 100).Draw(t, "msg"))
		dl := rapid.SampledFrom([]int{16, 20, 255, 256, 300, 1}).Draw(t, "dlen")
		c.Dst = hex.EncodeToString(rapid.SliceOfN(rapid.Byte(), dl, dl).Draw(t, "dst"))
		if gen.Chance(t, "twoDsts", 2, 3) {
			dl2 := rapid.SampledFrom([]int{300, 256, 16, 1000, 257}).Draw(t, "dlen2")
			c.Dst2 = hex.EncodeToString(rapid.SliceOfN(rapid.Byte(), dl2, dl2).Draw(t, "dst2"))
		}
		n := 2 + gen.Pick(t, "ncalls", 9)
		for i := 0; i < n; i++ {
			c.Calls = append(c.Calls, call{Fn: callFns[gen.Pick(t, "fn", len(callFns))], I: rapid.IntRange(0, 1).Draw(t, "i"), J: rapid.IntRange(0, 1).Draw(t, "j"),
				Cond: rapid.SampledFrom([]uint64{0, 1, 2, ^uint64(0)}).Draw(t, "cond")})
		}
		g := 2 + gen.Pick(t, "goroutines", 7)
		for i := 0; i < g; i++ {
			c.Order = append(c.Order, rapid.Permutation(seq(n)).Draw(t, "order"))
		}
		c.TailWriter = gen.Chance(t, "tailWriter", 1, 4)
		c.Knobs = gen.Chance(t, "knobs", 1, 8)
		switch gen.Pick(t, "load", 12) {
		case 0: // a swarm: a few hundred goroutines, a short list each
			if n > 3 {
				c.Calls = c.Calls[:3]
				for i := range c.Order {
					c.Order[i] = []int{i % 3, (i + 1) % 3, (i + 2) % 3}
				}
			}
			c.Fan = 20 + gen.Pick(t, "fan", 30)
		case 1, 2: // long overlap
			c.Rep = 5 + gen.Pick(t, "rep", 30)
		}
		return c
	},
	Fixed: func() []caseC16 {
		g := pt.Spec{Base: pt.Base{Kind: "g"}}
		var out []caseC16
		for _, fn := range []string{"HashToGroup", "EncodeToGroup", "HashToScalar"} {
			for _, dl := range []int{18, 300} {
				out = append(out, caseC16{E: []pt.Spec{g, g}, S: []string{"05", "07"}, Msg: "616263", Dst: hex.EncodeToString(bytes.Repeat([]byte{'D'}, dl)),
					DstLay: gen.Layout{Pre: 1, Post: 7}, Calls: []call{{Fn: fn}}, Order: [][]int{{0}, {0}, {0}, {0}}})
			}
		}
		for _, fn := range []string{"HashToGroup", "EncodeToGroup", "HashToScalar"} {
			out = append(out, caseC16{E: []pt.Spec{g, g}, S: []string{"05", "07"}, Msg: "616263", Dst: hex.EncodeToString(bytes.Repeat([]byte{'A'}, 300)),
				Dst2: hex.EncodeToString(bytes.Repeat([]byte{'B'}, 300)), Calls: []call{{Fn: fn, J: 0}, {Fn: fn, J: 1}, {Fn: fn, J: 0}, {Fn: fn, J: 1}},
				Order: [][]int{{0, 1, 2, 3}, {1, 0, 3, 2}, {2, 3, 0, 1}, {3, 2, 1, 0}}})
		}
		all := caseC16{E: []pt.Spec{g, {Base: pt.Base{Kind: "kg", K: 3}, Steps: []pt.Step{{Op: "dblsub"}}}}, S: []string{"05", gen.H(new(bigInt).Sub(ref.N, one))}, Msg: "00", Dst: hex.EncodeToString(bytes.Repeat([]byte{'x'}, 32)), DstLay: gen.Layout{Post: 1}}
		var ord []int
		for i, fn := range append(append([]string{}, callFns[:29]...), "E.Decode-neg", "Shared.observe", "Shared.S.observe") {
			all.Calls = append(all.Calls, call{Fn: fn, I: i % 2, J: (i + 1) % 2, Cond: uint64(i % 3)})
			ord = append(ord, i)
		}
		rev := make([]int, len(ord))
		for i := range ord {
			rev[i] = ord[len(ord)-1-i]
		}
		all.Order = [][]int{ord, rev, ord, rev}
		for _, fn := range []string{"HashToGroup", "EncodeToGroup", "HashToScalar"} {
			for _, dl := range []int{18, 300} {
				for _, fill := range []int{0, 2} {
					out = append(out, caseC16{E: []pt.Spec{g, g}, S: []string{"05", "07"}, Msg: "616263", Dst: hex.EncodeToString(bytes.Repeat([]byte{'T'}, dl)),
						DstLay: gen.Layout{Pre: 2, Post: 1, Fill: fill}, MsgLay: gen.Layout{Post: 3, Fill: fill}, Calls: []call{{Fn: fn}}, Order: [][]int{{0}, {0}, {0}, {0}}, Rep: 200, TailWriter: true})
				}
			}
		}
		// many goroutines hash ONE large message under one DST at the same time and go on computing with what they get
		for _, n := range []int{1<<20 + 1, 3 << 20} {
			out = append(out, caseC16{E: all.E, S: all.S, MsgLen: n, Dst: all.Dst, Calls: []call{{Fn: "HashToScalar"}, {Fn: "HashToGroup"}, {Fn: "EncodeToGroup"}},
				Order: [][]int{{0, 1, 2}, {0, 1, 2}, {1, 0, 2}, {2, 1, 0}, {0, 2, 1}, {1, 2, 0}, {2, 0, 1}, {0, 1, 2}}})
		}
		// the runtime's knobs move while the calls run
		out = append(out, caseC16{E: all.E, S: all.S, Msg: "616263", Dst: all.Dst, Calls: []call{{Fn: "HashToScalar"}, {Fn: "HashToGroup"}, {Fn: "EncodeToGroup"}, {Fn: "E.Multiply", I: 1}, {Fn: "Random"}},
			Order: [][]int{{0, 1, 2, 3, 4}, {4, 3, 2, 1, 0}, {1, 0, 3, 2, 4}, {2, 4, 0, 1, 3}}, Rep: 300, Knobs: true})
		// P and -P decoded at the same time; one shared computed element (Z != 1) observed by everybody
		out = append(out, caseC16{E: all.E, S: all.S, Msg: "00", Dst: all.Dst, Calls: []call{{Fn: "E.Decode", I: 1}, {Fn: "E.Decode-neg", I: 1}, {Fn: "E.DecodeHex", I: 1}},
			Order: [][]int{{0, 1, 2}, {1, 0, 2}, {1, 2, 0}, {0, 2, 1}}, Rep: 300})
		for rep := 0; rep < 3; rep++ {
			out = append(out, caseC16{E: all.E, S: all.S, Msg: "00", Dst: all.Dst, Calls: []call{{Fn: "Shared.observe", I: 1, J: 0}, {Fn: "E.Add", I: 1}, {Fn: "E.Set", I: 1}, {Fn: "Shared.S.observe", I: 1}},
				Order: [][]int{{0, 1, 2, 3}, {1, 0, 3, 2}, {0, 2, 1, 3}, {2, 0, 3, 1}, {0, 3, 1, 2}, {1, 2, 0, 3}}, Fan: 3})
		}
		// swarms: 400 goroutines x 8 multiplications / subtractions / hashes each (calls get preempted half-way, >128 in flight)
		for _, fns := range [][]string{{"E.Multiply", "Base.Multiply"}, {"E.Subtract", "E.Add"}, {"HashToGroup", "HashToScalar"}, {"S.Pow", "S.Multiply"}} {
			sw := caseC16{E: all.E, S: []string{gen.H(new(bigInt).Sub(ref.N, one)), "0123456789abcdef0123456789abcdef0123456789abcdef"}, Msg: "6d", Dst: all.Dst,
				Calls: []call{{Fn: fns[0], I: 0, J: 1}, {Fn: fns[1], I: 1, J: 0}}, Order: [][]int{{0, 1}, {1, 0}, {0, 0}, {1, 1}}, Fan: 100, Rep: 4}
			out = append(out, sw)
		}
		return append(out, all)
	},
	Required: []string{"two-oversize-dsts", "shared-spare-capacity-dst", "goroutines>=2", "goroutines>128", "repeated-lists", "tail-writer", "runtime-knobs-toggled", "call:HashToGroup", "call:HashToScalar", "call:E.Multiply"},
	Run:      runC16,
})

func b2i(b bool) int {
	if b {
		return 1
	}
	return 0
}

func seq(n int) []int {
	out := make([]int, n)
	for i := range out {
		out[i] = i
	}
	return out
}

// goroutineEntropy is the process's entropy source during C16: a deterministic stream per calling goroutine (blocks derived from
// the goroutine id and a counter, every fifth one zero or n), filled into the caller's buffer by ANOTHER goroutine - an entropy
// daemon client - with a garbage collection now and then while the caller is parked in Read.
type goroutineEntropy struct {
	mu      sync.Mutex
	streams map[uint64]*gStream
	reads   atomic.Uint64
}

type gStream struct {
	next  uint64
	queue []byte
	given []byte
}

var entropy = &goroutineEntropy{streams: map[uint64]*gStream{}}

func curGID() uint64 {
	var buf [64]byte
	b := buf[:runtime.Stack(buf[:], false)]
	b = b[len("goroutine "):]
	var id uint64
	for _, c := range b {
		if c < '0' || c > '9' {
			break
		}
		id = id*10 + uint64(c-'0')
	}
	return id
}

func (e *goroutineEntropy) stream(gid uint64) *gStream {
	e.mu.Lock()
	defer e.mu.Unlock()
	st := e.streams[gid]
	if st == nil {
		st = &gStream{}
		e.streams[gid] = st
	}
	return st
}

func (e *goroutineEntropy) begin(gid uint64) { e.stream(gid).given = nil }

func (e *goroutineEntropy) end(gid uint64) []byte {
	st := e.stream(gid)
	g := st.given
	e.mu.Lock()
	delete(e.streams, gid)
	e.mu.Unlock()
	return g
}

func (e *goroutineEntropy) Read(p []byte) (int, error) {
	gid := curGID()
	st := e.stream(gid) // only the goroutine gid (and the filler it waits for) touches st
	for len(st.queue) < len(p) {
		st.next++
		var blk [32]byte
		switch {
		case st.next%5 == 0 && st.next%10 != 0:
			copy(blk[:], ref.Bytes32(ref.N))
		case st.next%10 == 0:
		default:
			for i := range blk {
				blk[i] = byte(gid*131 + st.next*31 + uint64(i)*7)
			}
			blk[0] &= 0x7f
			blk[31] |= 1
		}
		st.queue = append(st.queue, blk[:]...)
	}
	done := make(chan struct{})
	go func() { // the buffer is filled by another goroutine
		runtime.Gosched()
		copy(p, st.queue[:len(p)])
		close(done)
	}()
	if e.reads.Add(1)%16 == 1 {
		runtime.GC()
	}
	<-done
	st.given = append(st.given, st.queue[:len(p)]...)
	st.queue = st.queue[len(p):]
	return len(p), nil
}

//go:noinline
func growStack(n int) byte {
	var pad [2048]byte
	pad[n] = byte(n)
	if n == 0 {
		return pad[0]
	}
	return growStack(n-1) + pad[n]
}

func TestC16Concurrent(t *testing.T) {
	if dir := os.Getenv("VERIF_REPLAY_DIR"); dir != "" {
		_ = os.MkdirAll(dir, 0o755)
		currentCasePath = filepath.Join(dir, fmt.Sprintf("C16_current-%s-%d.json", os.Getenv("VERIF_SHARD"), os.Getpid()))
		fmt.Printf("VERIF-CURRENT-CASE %s\n", currentCasePath)
		t.Cleanup(func() {
			if !t.Failed() {
				_ = os.Remove(currentCasePath)
			}
		})
	}
	// cold start: the very first use of the package's functions in this process happens concurrently
	fixed := c16.Fixed()
	cold := fixed[len(fixed)-1]
	cold.Order = append(cold.Order, cold.Order...)
	if err := runC16(cold, &gen.Obs{}); err != nil {
		t.Fatalf("cold start: %v", err)
	}
	c16.Execute(t)
}
