package race

import "math/big"

type bigInt = big.Int

var one = big.NewInt(1)
