// Package endureint is the "number of calls" dimension (see package endure) for the properties stated about the internal
// layers: the field arithmetic (C12) and the map to the curve (C11). It calls internal/* directly and is an optional unit: a
// tree whose internal API changed only loses these checks.
package endureint

import (
	"bytes"
	"fmt"
	"math/big"
	"testing"

	"github.com/bytemare/secp256k1"
	"github.com/bytemare/secp256k1/internal/field"
	"github.com/bytemare/secp256k1/verifharness/endcore"
	"github.com/bytemare/secp256k1/verifharness/gen"
	_ "github.com/bytemare/secp256k1/verifharness/pt" // registers the cold-start exercise
	"github.com/bytemare/secp256k1/verifharness/ref"
)

func TestMain(m *testing.M) { gen.Main(m) }

// TestReplay replays $VERIF_REPLAY.
func TestReplay(t *testing.T) { gen.ReplayMain(t) }

var (
	bigOne = big.NewInt(1)
	rP     = new(big.Int).Mod(new(big.Int).Lsh(bigOne, 256), ref.P)
)

func limbs(v *big.Int) [4]uint64 {
	return gen.ToLimbs(new(big.Int).Mod(new(big.Int).Mul(v, rP), ref.P))
}

func fe(v *big.Int) *field.Element {
	e := field.New()
	l := limbs(v)
	copy(e.E[:], l[:])
	return e
}

func fieldTable() []*big.Int {
	pm1 := new(big.Int).Sub(ref.P, bigOne)
	return []*big.Int{big.NewInt(0), big.NewInt(1), big.NewInt(2), pm1, new(big.Int).Rsh(ref.P, 1), new(big.Int).Lsh(bigOne, 255),
		new(big.Int).Sub(new(big.Int).Lsh(bigOne, 192), bigOne), ref.Gx, ref.Gy, ref.Beta, new(big.Int).Lsh(bigOne, 32)}
}

// wide operand family of the working-set cases: value i is (i+1) * Gx mod p
func wideF(i int) *big.Int {
	return new(big.Int).Mod(new(big.Int).Mul(big.NewInt(int64(i+1)), ref.Gx), ref.P)
}

var ops = map[string]endcore.OpDef{
	"field.arith": {Prop: "C12", Cost: 0, Build: func() []endcore.Variant {
		var out []endcore.Variant
		tab := fieldTable()
		for i, a := range tab {
			b := tab[(i+3)%len(tab)]
			ea, eb, r := fe(a), fe(b), field.New()
			wadd, wsub, wmul, wsq, wneg := limbs(ref.FAdd(a, b)), limbs(ref.FSub(a, b)), limbs(ref.FMul(a, b)), limbs(ref.FMul(a, a)), limbs(ref.FNeg(a))
			a, b := a, b
			out = append(out, func() string {
				if r.Add(ea, eb); r.E != wadd {
					return fmt.Sprintf("%x + %x: limbs %v, want %v", a, b, r.E, wadd)
				}
				if r.Subtract(ea, eb); r.E != wsub {
					return fmt.Sprintf("%x - %x: limbs %v, want %v", a, b, r.E, wsub)
				}
				if r.Multiply(ea, eb); r.E != wmul {
					return fmt.Sprintf("%x * %x: limbs %v, want %v", a, b, r.E, wmul)
				}
				if r.Square(ea); r.E != wsq {
					return fmt.Sprintf("%x ^ 2: limbs %v, want %v", a, r.E, wsq)
				}
				if r.Negate(ea); r.E != wneg {
					return fmt.Sprintf("- %x: limbs %v, want %v", a, r.E, wneg)
				}
				return ""
			})
		}
		return out
	}, Wide: func(i int) endcore.Variant {
		a, b := wideF(i), wideF(2*i+3)
		ea, eb, r := fe(a), fe(b), field.New()
		wadd, wmul, wsq := limbs(ref.FAdd(a, b)), limbs(ref.FMul(a, b)), limbs(ref.FMul(a, a))
		return func() string {
			if r.Add(ea, eb); r.E != wadd {
				return fmt.Sprintf("%x + %x: limbs %v, want %v", a, b, r.E, wadd)
			}
			if r.Multiply(ea, eb); r.E != wmul {
				return fmt.Sprintf("%x * %x: limbs %v, want %v", a, b, r.E, wmul)
			}
			if r.Square(ea); r.E != wsq {
				return fmt.Sprintf("%x ^ 2: limbs %v, want %v", a, r.E, wsq)
			}
			return ""
		}
	}},
	"field.bytes": {Prop: "C12", Cost: 1, Build: func() []endcore.Variant {
		var out []endcore.Variant
		for _, a := range append(fieldTable(), ref.P, new(big.Int).Add(ref.P, bigOne), new(big.Int).Sub(new(big.Int).Lsh(bigOne, 256), bigOne)) {
			in, r := [32]byte(ref.Bytes32(a)), field.New()
			want, wflag := limbs(new(big.Int).Mod(a, ref.P)), uint64(0)
			if a.Cmp(ref.P) < 0 {
				wflag = 1
			}
			wbytes := ref.Bytes32(new(big.Int).Mod(a, ref.P))
			var wide [48]byte
			copy(wide[16:], in[:])
			copy(wide[:16], in[8:24])
			wwide := limbs(new(big.Int).Mod(ref.OS2IP(wide[:]), ref.P))
			out = append(out, func() string {
				if _, flag := r.FromBytesWithReduce(in); r.E != want || flag != wflag {
					return fmt.Sprintf("FromBytesWithReduce(%x): limbs %v flag %d, want %v flag %d", in, r.E, flag, want, wflag)
				}
				if got := r.Bytes(); !bytes.Equal(got[:], wbytes) {
					return fmt.Sprintf("Bytes = %x, want %x", got, wbytes)
				}
				if r.HashToFieldElement(wide); r.E != wwide {
					return fmt.Sprintf("HashToFieldElement(%x): limbs %v, want %v", wide, r.E, wwide)
				}
				return ""
			})
		}
		return out
	}},
	"field.invert-sqrt": {Prop: "C12", Cost: 2, Build: func() []endcore.Variant {
		var out []endcore.Variant
		tab := fieldTable()
		for i, a := range tab {
			b := tab[(i+1)%len(tab)]
			if b.Sign() == 0 {
				b = big.NewInt(3)
			}
			ea, eb, r := fe(a), fe(b), field.New()
			winv := limbs(ref.FInv0(a))
			ratio := ref.FMul(a, ref.FInv0(b))
			wsq := uint64(0)
			if ref.IsSquare(ratio) {
				wsq = 1
			}
			a, b := a, b
			out = append(out, func() string {
				if r.Invert(*ea); r.E != winv {
					return fmt.Sprintf("1/%x: limbs %v, want %v", a, r.E, winv)
				}
				_, flag := r.SqrtRatio(ea, eb)
				if flag != wsq {
					return fmt.Sprintf("SqrtRatio(%x, %x) flag %d, want %d", a, b, flag, wsq)
				}
				if wsq == 1 {
					var sq field.Element
					sq.Square(r)
					sq.Multiply(&sq, eb)
					if sq.Equals(ea) != 1 {
						return fmt.Sprintf("SqrtRatio(%x, %x): root^2 * v != u", a, b)
					}
				}
				return ""
			})
		}
		return out
	}, Wide: func(i int) endcore.Variant {
		a, b := wideF(i), wideF(i+1)
		ea, eb, r := fe(a), fe(b), field.New()
		winv := limbs(ref.FInv0(a))
		wsq := uint64(0)
		if ref.IsSquare(ref.FMul(a, ref.FInv0(b))) {
			wsq = 1
		}
		return func() string {
			if r.Invert(*ea); r.E != winv {
				return fmt.Sprintf("1/%x: limbs %v, want %v", a, r.E, winv)
			}
			if _, flag := r.SqrtRatio(ea, eb); flag != wsq {
				return fmt.Sprintf("SqrtRatio(%x, %x) flag %d, want %d", a, b, flag, wsq)
			}
			return ""
		}
	}},
	"map.sswu-isogeny": {Prop: "C11", Cost: 2, Build: func() []endcore.Variant {
		var out []endcore.Variant
		for _, u := range append(fieldTable(), ref.ExceptionalU()...) {
			eu := fe(u)
			wx, wy, _ := ref.SSWU(u)
			want := ref.IsoMap(wx, wy)
			if want.Inf || !want.Valid() {
				continue
			}
			wenc, u := ref.Uncompressed(want), u
			out = append(out, func() string {
				q := secp256k1.SSWU(eu)
				if got := secp256k1.IsogenySecp256k13iso(q).EncodeUncompressed(); !bytes.Equal(got, wenc) {
					return fmt.Sprintf("iso(SSWU(%x)) = %x, want %x", u, got, wenc)
				}
				return ""
			})
		}
		return out
	}, Wide: func(i int) endcore.Variant {
		u := wideF(i)
		wx, wy, _ := ref.SSWU(u)
		want := ref.IsoMap(wx, wy)
		if want.Inf || !want.Valid() {
			return func() string { return "" }
		}
		wenc := ref.Uncompressed(want)
		return func() string {
			if got := secp256k1.IsogenySecp256k13iso(secp256k1.SSWU(fe(u))).EncodeUncompressed(); !bytes.Equal(got, wenc) {
				return fmt.Sprintf("iso(SSWU(%x)) = %x, want %x", u, got, wenc)
			}
			return ""
		}
	}},
}

var suite = endcore.NewSuite(ops)

func TestEndure(t *testing.T) { suite.Execute(t) }
