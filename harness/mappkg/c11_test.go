package mappkg

import (
	"bytes"
	"math/big"
	"testing"

	"github.com/bytemare/secp256k1"
	"github.com/bytemare/secp256k1/verifharness/gen"
	"github.com/bytemare/secp256k1/verifharness/pt"
	"github.com/bytemare/secp256k1/verifharness/ref"
	"pgregory.net/rapid"
)

// C11: the simplified SWU map and the 3-isogeny are total and RFC-exact on every field element.

type caseC11 struct {
	U      FV   `json:"u"`
	Target bool `json:"targeted,omitempty"` // u was solved so that tv1 or tv2 takes a chosen value
}

var (
	half   = ref.FInv0(big.NewInt(2))
	zInvFp = ref.FInv0(ref.SswuZ)
)

// sqrtIfSquare returns a square root of a, or nil.
func sqrtIfSquare(a *big.Int) *big.Int {
	if !ref.IsSquare(a) {
		return nil
	}
	return ref.Sqrt(a)
}

// solveUForIntermediate returns u with Z u^2 = tau (tv2 false) or (Z u^2)^2 + Z u^2 = tau (tv2 true), or nil.
func solveUForIntermediate(tau *big.Int, tv2 bool) *big.Int {
	cands := []*big.Int{tau}
	if tv2 {
		// tv1^2 + tv1 - tau = 0  =>  tv1 = (-1 +- sqrt(1 + 4 tau)) / 2
		r := sqrtIfSquare(ref.FAdd(bigOne, ref.FMul(big.NewInt(4), tau)))
		if r == nil {
			return nil
		}
		cands = []*big.Int{ref.FMul(ref.FSub(r, bigOne), half), ref.FMul(ref.FSub(ref.FNeg(r), bigOne), half)}
	}
	for _, tv1 := range cands {
		if u := sqrtIfSquare(ref.FMul(tv1, zInvFp)); u != nil {
			return u
		}
	}
	return nil
}

// affineOf reads the affine coordinates of an element produced by SSWU / the isogeny: from the raw projective
// coordinates when white-box access is calibrated, otherwise through EncodeUncompressed (which performs no curve
// check on the pinned tree, so it also serialises points of the isogenous curve). ok = false means "cannot read",
// which is a harness limitation, never a violation.
func affineOf(e *secp256k1.Element) (x, y *big.Int, ok bool) {
	if pt.Calibrated() {
		b := pt.Inspect(e, ref.Infinity())
		if b.RawKnown && b.Z.Sign() != 0 {
			zi := ref.FInv0(b.Z)
			return ref.FMul(b.X, zi), ref.FMul(b.Y, zi), true
		}
		return nil, nil, false
	}
	b := e.EncodeUncompressed()
	if len(b) != 65 || b[0] != 4 {
		return nil, nil, false
	}
	return ref.OS2IP(b[1:33]), ref.OS2IP(b[33:]), true
}

var c11 = gen.Register(&gen.Check[caseC11]{
	Name: "C11/sswu",
	Gen: func(t *rapid.T) caseC11 {
		if gen.Chance(t, "exceptional", 1, 16) {
			return caseC11{U: fv(rapid.SampledFrom(ref.ExceptionalU()).Draw(t, "exc"))}
		}
		if gen.Chance(t, "output-targeted", 1, 60) {
			// drive a coordinate of the RESULT to a boundary pattern: solve the curve equation for x', then x1(u) = x' or x2(u) = x'
			if us := solveOutput(rapid.IntRange(0, 1).Draw(t, "coord"), FVGen().Draw(t, "tau").Value(), gen.U64(t, "salt")); len(us) > 0 {
				return caseC11{U: fv(us[rapid.IntRange(0, len(us)-1).Draw(t, "which")]), Target: true}
			}
		}
		if gen.Chance(t, "deep-targeted", 1, 40) {
			// drive ANY polynomial intermediate of the straight-line program (steps 1-17, 19) to a boundary pattern, in canonical or
			// Montgomery form, by root finding (see solved_test.go)
			step := rapid.IntRange(0, 18).Draw(t, "step")
			tau := FVGen().Draw(t, "tau").Value()
			if u := solveStep(step, tau, gen.U64(t, "salt")); u != nil {
				return caseC11{U: fv(u), Target: true}
			}
		}
		if gen.Chance(t, "targeted", 1, 3) {
			// drive an intermediate value of the map (tv1 = Z u^2, tv2 = tv1^2 + tv1: the operand of the
			// exceptional-case zero test) to a boundary pattern, in canonical or Montgomery form, by solving for u
			tau := FVGen().Draw(t, "tau").Value()
			if u := solveUForIntermediate(tau, rapid.Bool().Draw(t, "tv2")); u != nil {
				return caseC11{U: fv(u), Target: true}
			}
		}
		return caseC11{U: FVGen().Draw(t, "u")}
	},
	Fixed: func() []caseC11 {
		var out []caseC11
		for _, u := range ref.ExceptionalU() {
			out = append(out, caseC11{U: fv(u)})
		}
		for _, u := range []*big.Int{bigOne, big.NewInt(2), pm1, new(big.Int).Sub(ref.P, big.NewInt(2))} {
			out = append(out, caseC11{U: fv(u)})
		}
		for i, e := range solvedFixed() {
			if (e.Kind == "sswu" || e.Kind == "sswu-out") && i%gen.DictStride() == 0 {
				out = append(out, caseC11{U: FV{Hex: e.Root}, Target: true})
			}
		}
		return out
	},
	Required: []string{"targeted-intermediate", "exceptional", "gx1square=true,signflip=true", "gx1square=true,signflip=false", "gx1square=false,signflip=true", "gx1square=false,signflip=false"},
	Run: func(c caseC11, o *gen.Obs) error {
		u := c.U.Value()
		fe := c.U.Build()
		wx, wy, tr := ref.SSWU(u)
		o.ClassIf(tr.Exceptional, "exceptional")
		o.ClassIf(c.Target, "targeted-intermediate")
		o.Class("gx1square=%v,signflip=%v", tr.Gx1Square, tr.SignFlipped)
		o.NonTrivial()
		q := secp256k1.SSWU(fe)
		x, y, ok := affineOf(q)
		if !ok {
			return &gen.Inconclusive{Msg: "cannot read the coordinates of SSWU's output on this tree"}
		}
		site := "SSWU"
		if tr.Exceptional {
			site = "SSWU/exceptional"
		}
		if !ref.OnIso(x, y) {
			return gen.Fail(site+"/off-curve", "SSWU(%x) = (%x, %x) is not on E'", u, x, y)
		}
		if ref.Sgn0(y) != ref.Sgn0(u) {
			return gen.Fail(site+"/sign", "sgn0(y) != sgn0(u) for u=%x: y=%x", u, y)
		}
		if x.Cmp(wx) != 0 || y.Cmp(wy) != 0 {
			return gen.Fail(site+"/value", "SSWU(%x) = (%x, %x), RFC 9380 6.6.2 gives (%x, %x)", u, x, y, wx, wy)
		}
		// SSWU(-u) = -SSWU(u) for u != 0
		if u.Sign() != 0 {
			nx, ny, ok2 := affineOf(secp256k1.SSWU(fv(ref.FNeg(u)).Build()))
			if !ok2 || nx.Cmp(x) != 0 || ny.Cmp(ref.FNeg(y)) != 0 {
				return gen.Fail("SSWU/odd-symmetry", "SSWU(-u) != -SSWU(u) for u=%x", u)
			}
		}
		// the isogeny carries it to the prescribed point of secp256k1
		want := ref.IsoMap(wx, wy)
		r := secp256k1.IsogenySecp256k13iso(q)
		if !want.Valid() || want.Inf {
			return &gen.Inconclusive{Msg: "model isogeny image invalid"}
		}
		if enc := r.EncodeUncompressed(); !bytes.Equal(enc, ref.Uncompressed(want)) {
			return gen.Fail("Isogeny/value", "iso(SSWU(%x)) = %x, want %x", u, enc, ref.Uncompressed(want))
		}
		if enc := r.Encode(); !bytes.Equal(enc, ref.Compress(want)) {
			return gen.Fail("Isogeny/value", "iso(SSWU(%x)) encodes to %x, want %x", u, enc, ref.Compress(want))
		}
		if err := secp256k1.NewElement().Decode(r.EncodeUncompressed()); err != nil {
			return gen.Fail("Isogeny/off-curve", "iso(SSWU(%x)) is not a point of secp256k1: %v", u, err)
		}
		return nil
	},
})

func TestC11SSWU(t *testing.T) { c11.Execute(t) }

// --- the isogeny alone, on arbitrary points of E' (white-box: needs raw coordinate installation) --------

type caseC11iso struct {
	X   string `json:"x"` // first abscissa >= X with a point of E'
	Odd bool   `json:"odd"`
}

var c11iso = gen.Register(&gen.Check[caseC11iso]{
	Name:   "C11/isogeny",
	Weight: 0.5,
	Gen: func(t *rapid.T) caseC11iso {
		x := gen.Int(ref.P).Draw(t, "x")
		if gen.Chance(t, "deep-targeted", 1, 40) {
			// any of the four polynomials of the rational map driven to a boundary pattern
			if r := solveIso(rapid.IntRange(0, 3).Draw(t, "poly"), FVGen().Draw(t, "tau").Value(), gen.U64(t, "salt")); r != nil {
				return caseC11iso{X: gen.H(r), Odd: rapid.Bool().Draw(t, "odd")}
			}
		}
		if gen.Chance(t, "targeted", 1, 3) {
			// the isogeny tests 1/x_den and y_den for zero, with x_den = (x' - xT)^2 and y_den = (x' - xT)^3:
			// choose x' so that one of them takes a boundary pattern
			tau := FVGen().Draw(t, "tau").Value()
			if rapid.Bool().Draw(t, "xden") {
				if r := sqrtIfSquare(ref.FInv0(tau)); r != nil {
					x = ref.FAdd(isoXT, r)
				}
			} else if r := cubeRoot(tau); r != nil {
				x = ref.FAdd(isoXT, r)
			}
		}
		return caseC11iso{X: gen.H(x), Odd: rapid.Bool().Draw(t, "odd")}
	},
	Fixed: func() []caseC11iso {
		// algebraically distinguished abscissae of E': the one E' shares with secp256k1 itself (A'x + B' = 7: a point that is on
		// both curves looks "already mapped"), the neighbours of the kernel abscissa, roots of the right-hand sides, 0, +-1
		var out []caseC11iso
		common := ref.FMul(ref.FSub(big.NewInt(7), ref.IsoB), ref.FInv0(ref.IsoA))
		xs := []*big.Int{common, ref.FAdd(isoXT, bigOne), ref.FSub(isoXT, bigOne), new(big.Int), bigOne, pm1, ref.FNeg(ref.FMul(ref.IsoB, ref.FInv0(ref.IsoA)))}
		if r := cubeRoot(ref.FNeg(big.NewInt(7))); r != nil {
			xs = append(xs, r, ref.FMul(r, ref.Beta))
		}
		for _, x := range xs {
			out = append(out, caseC11iso{X: gen.H(x), Odd: false}, caseC11iso{X: gen.H(x), Odd: true})
		}
		for _, v := range gen.DictFixed(ref.P, 4*gen.DictStride()) {
			out = append(out, caseC11iso{X: gen.H(v), Odd: v.Bit(0) == 1})
		}
		for i, e := range solvedFixed() {
			if e.Kind == "iso" {
				out = append(out, caseC11iso{X: e.Root, Odd: i%2 == 1})
			}
		}
		return out
	},
	Run: func(c caseC11iso, o *gen.Obs) error {
		if !pt.Calibrated() {
			o.Class("skipped:api-only")
			return nil
		}
		x := gen.B(c.X)
		var y *big.Int
		for {
			g := ref.FAdd(ref.FAdd(ref.FMul(ref.FMul(x, x), x), ref.FMul(ref.IsoA, x)), ref.IsoB)
			if ref.IsSquare(g) {
				y = ref.Sqrt(g)
				break
			}
			x = ref.FAdd(x, bigOne)
		}
		if (y.Bit(0) == 1) != c.Odd {
			y = ref.FNeg(y)
		}
		if !ref.OnIso(x, y) {
			return &gen.Inconclusive{Msg: "model failed to build a point of E'"}
		}
		o.NonTrivial()
		o.Class("white-box")
		want := ref.IsoMap(x, y)
		if want.Inf || !want.Valid() {
			return &gen.Inconclusive{Msg: "model isogeny image invalid"}
		}
		e := secp256k1.NewElement()
		pt.SetRaw(e, x, y, big.NewInt(1))
		r := secp256k1.IsogenySecp256k13iso(e)
		if enc := r.EncodeUncompressed(); !bytes.Equal(enc, ref.Uncompressed(want)) {
			return gen.Fail("Isogeny/value", "iso(%x, %x) = %x, want %x", x, y, enc, ref.Uncompressed(want))
		}
		if r.IsIdentity() {
			return gen.Fail("Isogeny/identity", "iso(%x, %x) is the identity", x, y)
		}
		return nil
	},
})

func TestC11Isogeny(t *testing.T) { c11iso.Execute(t) }

// isoXT is the kernel abscissa of the isogeny: x_den = x'^2 + k21 x' + k20 = (x' - xT)^2, so xT = -k21/2.
var isoXT = func() *big.Int {
	k21 := gen.B("edadc6f64383dc1df7c4b2d51b54225406d36b641f5e41bbc52a56612a8c6d14")
	return ref.FMul(ref.FNeg(k21), half)
}()

// cubeRoot returns a cube root of a in F_p (p = 7 mod 9), or nil.
func cubeRoot(a *big.Int) *big.Int {
	e := new(big.Int).Div(new(big.Int).Add(ref.P, big.NewInt(2)), big.NewInt(9))
	r := new(big.Int).Exp(a, e, ref.P)
	for i := 0; i < 3; i++ {
		if ref.FMul(ref.FMul(r, r), r).Cmp(new(big.Int).Mod(a, ref.P)) == 0 {
			return r
		}
		r = ref.FMul(r, ref.Beta)
	}
	return nil
}
