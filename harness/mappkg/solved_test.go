package mappkg

import (
	_ "embed"
	"encoding/json"
	"math/big"
	"os"
	"sync"
	"testing"

	"github.com/bytemare/secp256k1/verifharness/gen"
	"github.com/bytemare/secp256k1/verifharness/ref"
)

// Inputs SOLVED so that one intermediate value of the RFC 9380 straight-line program takes a chosen value. Every value the
// simplified-SWU program computes in steps 1-17 and 19 is a polynomial of degree <= 12 in u, and the isogeny's numerators and
// denominators are cubics in x'; ref.SolvePoly finds the roots (Cantor-Zassenhaus). This is how the generated search reaches
// the tiny regions where one intermediate is special in the representation the code computes on - a Montgomery form of a few
// bits (what a lazily reduced sum or a skipped conditional subtraction gets wrong), p - c, word boundaries, constants of the
// source tree (via gen.Int's dictionary kinds) - without knowing anything about the code under test.
//
// solved_fixed.json holds the solutions for a fixed list of targets; it follows from the RFC alone and is regenerated with
//   VERIF_WRITE_SOLVED=$PWD/mappkg/solved_fixed.json go test -run TestWriteSolved ./mappkg/
// Every entry is re-verified against the polynomial model when it is loaded.

type solvedEntry struct {
	Kind   string `json:"kind"` // "sswu" (root is u), "iso" (root is x', with g(x') a square), "sswu-out" (root is u, target is an output coordinate)
	Step   int    `json:"step"` // index into ref.SSWUStepPolys() / ref.IsoPolys(); for "sswu-out": 0 abscissa, 1 ordinate (up to sign)
	Target string `json:"target"`
	Root   string `json:"root"`
}

//go:embed solved_fixed.json
var solvedJSON []byte

var (
	stepPolysOnce sync.Once
	stepPolys     []ref.Poly
	isoPolys      []ref.Poly
)

func polys() ([]ref.Poly, []ref.Poly) {
	stepPolysOnce.Do(func() {
		if err := ref.PolySelfTest(); err != nil {
			panic("harness: " + err.Error())
		}
		stepPolys, isoPolys = ref.SSWUStepPolys(), ref.IsoPolys()
	})
	return stepPolys, isoPolys
}

func isoRHS(x *big.Int) *big.Int {
	return ref.FAdd(ref.FAdd(ref.FMul(ref.FMul(x, x), x), ref.FMul(ref.IsoA, x)), ref.IsoB)
}

// solveStep returns a u for which step `step` (0-based, not 17) of the SSWU program equals tau, or nil.
func solveStep(step int, tau *big.Int, salt uint64) *big.Int {
	sp, _ := polys()
	if step < 0 || step >= len(sp) || sp[step] == nil {
		return nil
	}
	roots := ref.SolvePoly(sp[step], tau, salt)
	if len(roots) == 0 {
		return nil
	}
	return roots[int(salt%uint64(len(roots)))]
}

// solveIso returns an abscissa x' of a point of E' for which isogeny polynomial k equals tau, or nil.
func solveIso(k int, tau *big.Int, salt uint64) *big.Int {
	_, ip := polys()
	for _, r := range ref.SolvePoly(ip[k%len(ip)], tau, salt) {
		if ref.IsSquare(isoRHS(r)) {
			return r
		}
	}
	return nil
}

// solveOutput returns inputs u whose image under the map has the abscissa (coord 0) or an ordinate +-tau (coord 1) equal to tau:
// the ordinate's abscissae are the roots of x^3 + A'x + B' = tau^2, and u follows from x1(u) = x' (step 6 / step 8, degree 4) or
// x2(u) = x' (step 17 / step 8, degree 6). Every u returned is verified against the model; u and -u are both returned (they map to
// opposite ordinates, so the sign fix-up negates for one of them).
func solveOutput(coord int, tau *big.Int, salt uint64) []*big.Int {
	sp, _ := polys()
	var xs []*big.Int
	if coord == 0 {
		if ref.IsSquare(isoRHS(tau)) {
			xs = []*big.Int{tau}
		}
	} else {
		cubic := ref.Poly{ref.FSub(ref.IsoB, ref.FMul(tau, tau)), ref.IsoA, big.NewInt(0), big.NewInt(1)}
		xs = ref.PolyRoots(cubic, salt)
	}
	var out []*big.Int
	for _, x := range xs {
		for _, num := range []ref.Poly{sp[5], sp[16]} {
			for _, u := range ref.PolyRoots(ref.PolySub(num, ref.PolyScale(sp[7], x)), salt+1) {
				gx, gy, _ := ref.SSWU(u)
				if gx.Cmp(x) != 0 || (coord == 1 && gy.Cmp(tau) != 0 && gy.Cmp(ref.FNeg(tau)) != 0) {
					continue
				}
				out = append(out, u, ref.FNeg(u))
				break // (one pair per branch is enough)
			}
		}
	}
	return out
}

// outputTargets adds, to solvedTargets, Montgomery forms with one limb saturated or zero and the others arbitrary (what a
// limb-wise negation or comparison of a RESULT trips over).
func outputTargets() []*big.Int {
	out := solvedTargets()
	rInv := new(big.Int).ModInverse(new(big.Int).Mod(new(big.Int).Lsh(bigOne, 256), ref.P), ref.P)
	base := gen.ToLimbs(ref.Gx)
	for i := 0; i < 4; i++ {
		for _, w := range []uint64{^uint64(0), ^uint64(0) - 1, 0, 1, 1 << 63} {
			l := base
			l[i] = w
			l[3] &= 1<<63 - 1 // (below p)
			out = append(out, ref.FMul(gen.FromLimbs(l), rInv))
		}
	}
	return out
}

// solvedTargets is the fixed target list: Montgomery forms of a few bits and next to p, the fold constant 2^256 - p and its
// neighbours, word boundaries; and the same as canonical values.
func solvedTargets() []*big.Int {
	rInv := new(big.Int).ModInverse(new(big.Int).Mod(new(big.Int).Lsh(bigOne, 256), ref.P), ref.P)
	fold := new(big.Int).Sub(new(big.Int).Lsh(bigOne, 256), ref.P)
	var raw []*big.Int
	for c := int64(0); c <= 8; c++ {
		raw = append(raw, big.NewInt(c), new(big.Int).Sub(ref.P, big.NewInt(c+1)))
	}
	for _, d := range []int64{-2, -1, 0, 1} {
		raw = append(raw, new(big.Int).Add(fold, big.NewInt(d)))
	}
	for _, k := range []uint{32, 64, 128, 192, 255} {
		raw = append(raw, new(big.Int).Lsh(bigOne, k), new(big.Int).Sub(new(big.Int).Lsh(bigOne, k), bigOne))
	}
	var out []*big.Int
	for _, v := range raw {
		out = append(out, v, ref.FMul(v, rInv)) // canonical value v, and the value whose Montgomery form is v
	}
	return out
}

func computeSolved() []solvedEntry {
	sp, ip := polys()
	var out []solvedEntry
	for i, f := range sp {
		if f == nil {
			continue
		}
		for j, tau := range solvedTargets() {
			// several roots per target where they exist: which branch the map takes afterwards depends on the root
			roots := ref.SolvePoly(f, tau, uint64(i*1000+j))
			for k, r := range roots {
				if k >= 4 {
					break
				}
				if ref.Sgn0(r) == 1 && k%2 == 0 { // (u and -u are both roots: keep one of each pair by parity)
					continue
				}
				out = append(out, solvedEntry{Kind: "sswu", Step: i, Target: gen.H(tau), Root: gen.H(r)})
			}
		}
	}
	for i, f := range ip {
		for j, tau := range solvedTargets() {
			for _, r := range ref.SolvePoly(f, tau, uint64(i*1000+j+77)) {
				if ref.IsSquare(isoRHS(r)) {
					out = append(out, solvedEntry{Kind: "iso", Step: i, Target: gen.H(tau), Root: gen.H(r)})
					break
				}
			}
		}
	}
	for coord := 0; coord < 2; coord++ {
		for j, tau := range outputTargets() {
			us := solveOutput(coord, tau, uint64(j*31+coord))
			if len(us) > 4 {
				us = us[:4]
			}
			for _, u := range us {
				out = append(out, solvedEntry{Kind: "sswu-out", Step: coord, Target: gen.H(tau), Root: gen.H(u)})
			}
		}
	}
	return out
}

var (
	solvedOnce sync.Once
	solved     []solvedEntry
)

// solvedFixed loads and re-verifies the committed solutions.
func solvedFixed() []solvedEntry {
	solvedOnce.Do(func() {
		if err := json.Unmarshal(solvedJSON, &solved); err != nil {
			panic("harness: solved_fixed.json: " + err.Error())
		}
		sp, ip := polys()
		for _, e := range solved {
			if e.Kind == "sswu-out" {
				gx, gy, _ := ref.SSWU(gen.B(e.Root))
				if t := gen.B(e.Target); (e.Step == 0 && gx.Cmp(t) != 0) || (e.Step == 1 && gy.Cmp(t) != 0 && gy.Cmp(ref.FNeg(t)) != 0) {
					panic("harness: solved_fixed.json holds an output entry that is not a solution: " + e.Root)
				}
				continue
			}
			f := ip[e.Step%len(ip)]
			if e.Kind == "sswu" {
				f = sp[e.Step]
			}
			if f == nil || f.Eval(gen.B(e.Root)).Cmp(gen.B(e.Target)) != 0 || (e.Kind == "iso" && !ref.IsSquare(isoRHS(gen.B(e.Root)))) {
				panic("harness: solved_fixed.json holds an entry that is not a solution: " + e.Kind + " " + e.Root)
			}
		}
	})
	return solved
}

// TestWriteSolved regenerates solved_fixed.json (only when asked to).
func TestWriteSolved(t *testing.T) {
	path := os.Getenv("VERIF_WRITE_SOLVED")
	if path == "" {
		t.Skip("VERIF_WRITE_SOLVED not set")
	}
	b, err := json.MarshalIndent(computeSolved(), "", " ")
	if err != nil {
		t.Fatal(err)
	}
	if err := os.WriteFile(path, append(b, '\n'), 0o644); err != nil {
		t.Fatal(err)
	}
}
