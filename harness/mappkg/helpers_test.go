// Package mappkg holds C11: the simplified SWU map and the 3-isogeny, called with chosen field elements (the exported
// map functions take internal types; the harness module path is nested under the module's path).
package mappkg

import (
	"math/big"
	"testing"

	"github.com/bytemare/secp256k1/internal/field"
	"github.com/bytemare/secp256k1/verifharness/gen"
	"github.com/bytemare/secp256k1/verifharness/ref"
	"pgregory.net/rapid"
)

func TestMain(m *testing.M) { gen.Main(m) }

// TestReplay replays $VERIF_REPLAY.
func TestReplay(t *testing.T) { gen.ReplayMain(t) }

var (
	bigOne = big.NewInt(1)
	pm1    = new(big.Int).Sub(ref.P, bigOne)
	rP     = new(big.Int).Mod(new(big.Int).Lsh(bigOne, 256), ref.P)
	rPInv  = new(big.Int).ModInverse(rP, ref.P)
)

// FV is a base-field value in a case file: canonical value, or (Mont) the integer formed by the Montgomery limbs.
type FV struct {
	Hex  string `json:"v"`
	Mont bool   `json:"mont,omitempty"`
}

// Value is the canonical integer.
func (f FV) Value() *big.Int {
	v := gen.B(f.Hex)
	if f.Mont {
		return v.Mod(v.Mul(v, rPInv), ref.P)
	}
	return v
}

// Build returns a fresh field element holding the value; the limbs are computed by the model.
func (f FV) Build() *field.Element {
	v := gen.B(f.Hex)
	if !f.Mont {
		v.Mod(v.Mul(v, rP), ref.P)
	}
	e := field.New()
	l := gen.ToLimbs(v)
	copy(e.E[:], l[:])
	return e
}

func fv(v *big.Int) FV { return FV{Hex: gen.H(v)} }

// FVGen draws field values in both domains.
func FVGen() *rapid.Generator[FV] {
	return rapid.Custom(func(t *rapid.T) FV {
		v := gen.Int(ref.P).Draw(t, "fv")
		return FV{Hex: gen.H(v), Mont: rapid.IntRange(0, 2).Draw(t, "mont") == 0}
	})
}
