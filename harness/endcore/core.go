// Package endcore is the engine of the "number of calls" checks (see package endure).
package endcore

import (
	"fmt"
	"os"
	"runtime"
	"sort"
	"strconv"
	"sync"
	"sync/atomic"
	"testing"

	"github.com/bytemare/secp256k1/verifharness/gen"
)

// Case is one endurance case: N calls of one operation in one process.
type Case struct {
	Op     string `json:"op"`
	N      int    `json:"n"`      // number of calls
	Offset int    `json:"offset"` // table entry used by call 0
	Par    int    `json:"par"`    // goroutines sharing the N calls (process-wide counters add up); 0/1 = sequential
	// Hot: every call uses the same table entry (Offset), e.g. the one public key a service decodes on every request, instead
	// of rotating through the table: per-operand counters add up as fast as process-wide ones.
	Hot bool `json:"hot,omitempty"`
	// Ring > 0: the working-set dimension. The calls walk a ring of Ring DISTINCT operand values (far more than the small table),
	// each visited Dup times back-to-back, and come back to the first one after Ring*Dup calls: what a bounded store keyed by the
	// operand's value (admission on second use, eviction, slot recycling) does wrong only shows once the working set exceeds it.
	Ring int `json:"ring,omitempty"`
	Dup  int `json:"dup,omitempty"`
	// Churn: the runtime as part of the environment. Another goroutine runs garbage collections back to back while the calls are
	// made, and every Churn calls the calling goroutine first grows its stack (a deep recursion) and returns to a shallow frame,
	// so that the collector shrinks - moves - the stack under the calls that follow. Go code that is correct is oblivious to
	// both; code that smuggles an address through an integer, keeps a pointer the collector does not see or relies on an object
	// not moving is not.
	Churn int `json:"churn,omitempty"`
}

// inflate makes the calling goroutine's stack large (about 300 bytes per level).
//
//go:noinline
func inflate(depth int) int {
	var pad [256]byte
	pad[depth%256] = byte(depth)
	if depth == 0 {
		return int(pad[0])
	}
	return inflate(depth-1) + int(pad[depth%7])
}

// Variant is one table entry of an operation: a call with fixed operands that returns an error text when the result
// differs from the pre-computed expectation.
type Variant func() string

// OpDef describes one operation.
type OpDef struct {
	Prop  string
	Cost  int // rough cost class: 0 < 100 ns, 1 < 2 us, 2 < 30 us, 3 slower
	Build func() []Variant
	// Special, when set, runs the whole case itself (operations that need a process-wide set-up such as the entropy source).
	Special func(c Case) error
	// Wide, when set, builds the variant for the i-th value of an unbounded family of distinct operands (working-set cases).
	Wide func(i int) Variant
}

// Suite is a set of operations with one registered check per property.
type Suite struct {
	Ops    map[string]OpDef
	checks map[string]*gen.Check[Case]
}

// NewSuite registers one check per property ("C13/endurance", ...), so that replay files find their oracle.
func NewSuite(ops map[string]OpDef) *Suite {
	s := &Suite{Ops: ops, checks: map[string]*gen.Check[Case]{}}
	for _, def := range ops {
		if s.checks[def.Prop] == nil {
			s.checks[def.Prop] = gen.Register(&gen.Check[Case]{Name: def.Prop + "/endurance", Run: s.run, Required: []string{"calls>=2^12"}})
		}
	}
	return s
}

func (s *Suite) run(c Case, o *gen.Obs) error {
	def, ok := s.Ops[c.Op]
	if !ok {
		return &gen.Inconclusive{Msg: "unknown operation " + c.Op}
	}
	o.Class("op:" + c.Op)
	o.ClassIf(c.N >= 1<<12, "calls>=2^12")
	o.ClassIf(c.N >= 1<<16, "calls>=2^16")
	o.ClassIf(c.N >= 1<<20, "calls>=2^20")
	o.ClassIf(c.N >= 1<<24, "calls>=2^24")
	o.ClassIf(c.Hot, "hot-operand")
	o.NonTrivial()
	if def.Special != nil {
		return def.Special(c)
	}
	if c.Ring > 0 {
		if def.Wide == nil {
			return &gen.Inconclusive{Msg: "operation " + c.Op + " has no wide operand family"}
		}
		o.Class("working-set")
		o.ClassIf(c.Ring > 1<<12, "working-set>2^12")
		o.ClassIf(c.Ring > 1<<16, "working-set>2^16")
		tab, dup := make([]Variant, c.Ring), max(1, c.Dup)
		for i := 0; i < c.N; i++ {
			idx := (i/dup + c.Offset) % c.Ring
			if tab[idx] == nil {
				tab[idx] = def.Wide(idx)
			}
			if msg := tab[idx](); msg != "" {
				return gen.Fail("endurance/"+c.Op, "call number %d of %s in this process (operand %d of a ring of %d distinct operands, each used %d times in a row, round %d): %s", i+1, c.Op, idx, c.Ring, dup, i/(dup*c.Ring)+1, msg)
			}
		}
		return nil
	}
	if c.Churn > 0 {
		o.Class("stack-and-gc-churn")
		var stop atomic.Bool
		done := make(chan struct{})
		go func() {
			defer close(done)
			for !stop.Load() {
				runtime.GC()
			}
		}()
		defer func() { stop.Store(true); <-done }()
		tab := def.Build()
		for i := 0; i < c.N; i++ {
			if i%c.Churn == 0 {
				inflate(2000)
			}
			if msg := tab[(i+c.Offset)%len(tab)](); msg != "" {
				return gen.Fail("endurance/"+c.Op, "call number %d of %s in this process, while another goroutine runs garbage collections and this goroutine's stack was grown and released every %d calls: %s", i+1, c.Op, c.Churn, msg)
			}
		}
		return nil
	}
	par := max(1, c.Par)
	errs := make([]string, par)
	var wg sync.WaitGroup
	for g := 0; g < par; g++ {
		wg.Add(1)
		go func(g int) {
			defer wg.Done()
			tab := def.Build() // per goroutine: the variants own their receivers
			// goroutine g makes the calls g, g+par, g+2par, ... (with par = 1: all of them, in order)
			for i := g; i < c.N; i += par {
				idx := (i + c.Offset) % len(tab)
				if c.Hot {
					idx = c.Offset % len(tab)
				}
				if msg := tab[idx](); msg != "" {
					errs[g] = fmt.Sprintf("call number %d (of %d, %d goroutines) of %s in this process: %s", i+1, c.N, par, c.Op, msg)
					return
				}
			}
		}(g)
	}
	wg.Wait()
	for _, e := range errs {
		if e != "" {
			return gen.Fail("endurance/"+c.Op, "%s", e)
		}
	}
	return nil
}

// budget returns the number of calls for an operation of the given cost class in the current tier.
func budget(cost int) (n, par int) {
	thorough := os.Getenv("VERIF_TIER") == "thorough"
	scale := 1.0
	if v, err := strconv.ParseFloat(os.Getenv("VERIF_SCALE"), 64); err == nil && v > 0 && v < 1 {
		scale = v
	}
	cpus := runtime.NumCPU()
	switch {
	case !thorough:
		n = 1<<20 + 1<<10
		if cost >= 2 {
			n, par = 1<<17+1<<8, cpus
		}
		if cost >= 3 {
			n, par = 1<<13+1<<6, cpus
		}
	case cost <= 1:
		n = 1<<24 + 1<<12
		if cost == 1 {
			par = cpus
		}
	case cost == 2:
		n, par = 1<<24+1<<12, cpus
	default:
		n, par = 1<<18+1<<8, cpus
	}
	// the expensive operations count on sharing their calls among the CPUs: with few of them (single-P and CPU-pinned shards) the
	// budget shrinks accordingly - a budget is never a deadline
	if avail := min(runtime.GOMAXPROCS(0), cpus); cost >= 2 && avail < 16 {
		n = max(min(n, 1<<14), n/16*avail)
	}
	if runtime.GOARCH == "386" {
		n = n/16 + 300
	}
	if os.Getenv("VERIF_ALT_BUILD") == "1" {
		n = n/4 + 300
	}
	if os.Getenv("VERIF_RACE_BUILD") == "1" {
		n = n/64 + 300 // (the race detector makes every memory access an order of magnitude slower)
	}
	return max(300, int(float64(n)*scale)), par
}

// Execute runs the operations that serve one property ($VERIF_ENDURE_PROP). One test binary process per property and shard:
// the counts start at 0.
func (s *Suite) Execute(t *testing.T) {
	prop := os.Getenv("VERIF_ENDURE_PROP")
	if prop == "" {
		t.Skip("VERIF_ENDURE_PROP not set")
	}
	shard, _ := strconv.Atoi(os.Getenv("VERIF_SHARD"))
	names := make([]string, 0, len(s.Ops))
	for name := range s.Ops {
		names = append(names, name)
	}
	sort.Strings(names)
	var cases []Case
	for _, name := range names {
		if def := s.Ops[name]; def.Prop == prop {
			n, par := budget(def.Cost)
			if os.Getenv("GOMAXPROCS") == "1" {
				par = 0
			}
			cases = append(cases, Case{Op: name, N: n, Offset: shard, Par: par})
			if def.Special == nil {
				cases = append(cases, Case{Op: name, N: n, Offset: shard * 5, Par: par, Hot: true})
			}
			if def.Special == nil {
				// (what counts is the number of times the collector shrinks the stack under a call: one per collection at most, so the
				// calls must span many collections and the stack must be grown again between any two of them)
				churn, cn := 256, n
				if def.Cost == 2 {
					churn, cn = 64, n/4
				} else if def.Cost >= 3 {
					churn, cn = 16, n/4
				}
				cases = append(cases, Case{Op: name, N: max(300, cn), Offset: shard * 3, Churn: churn})
			}
			if def.Wide != nil {
				rings := []int{1<<8 + 1, 1<<12 + 1}
				if os.Getenv("VERIF_TIER") == "thorough" {
					rings = append(rings, 1<<16+1)
				}
				for _, ring := range rings {
					if rounds := 3; ring*2*rounds <= max(n, 1<<15) || ring <= 1<<12+1 { // (a budget is a budget: the big ring only where it fits)
						cases = append(cases, Case{Op: name, N: ring * 2 * rounds, Offset: shard, Ring: ring, Dup: 2})
					}
				}
			}
		}
	}
	chk := s.checks[prop]
	if chk == nil {
		t.Skipf("no endurance operations for %s in this package", prop)
	}
	chk.Fixed = func() []Case { return cases }
	chk.Execute(t)
	total := 0
	for _, c := range cases {
		total += c.N
	}
	chk.SetExtra("calls_in_this_process", total)
}
