package gen

import (
	"encoding/hex"
	"encoding/json"
	"math/big"
	"os"
	"sync"

	"pgregory.net/rapid"
)

var (
	one    = big.NewInt(1)
	two256 = new(big.Int).Lsh(one, 256)
	two64  = new(big.Int).Lsh(one, 64)
)

// LimbPatterns are the 64-bit limb values that sit on carry/borrow boundaries.
var LimbPatterns = []uint64{0, 1, 2, 1<<32 - 1, 1 << 32, 1<<32 + 1, 1 << 63, 1<<63 - 1, ^uint64(0) - 1, ^uint64(0)}

// Limb draws one 64-bit limb, biased towards boundary patterns.
func Limb() *rapid.Generator[uint64] {
	return rapid.Custom(func(t *rapid.T) uint64 {
		switch Pick(t, "limbKind", 9) {
		case 0, 1:
			return U64(t, "limb")
		case 8:
			if w, ok := dictLimb(t); ok {
				return w
			}
			return U64(t, "limb")
		case 3:
			// quotient-aimed limb: a low Montgomery limb a0 for which the first quotient digit of a word-by-word
			// Montgomery reduction, q = a0 * (-m^-1) mod 2^64, equals floor(2^k / c) +- 1 with c = 2^256 - m: then q*c
			// has an all-ones word and every carry / borrow of the round has to ripple through it
			i := rapid.IntRange(0, len(quotientAimed)-1).Draw(t, "qa")
			return quotientAimed[i]
		case 2:
			// fold-boundary limb: w with w * c = -delta (mod 2^64) for the low word c of a modulus defect 2^256 - m
			// (p: 2^32+977, n: 0x402da1732fc9bebf): the low half of the product w*c sits just below 2^64, where the
			// carry chains of hand-written "fold the high part back" reductions are exercised
			c := rapid.SampledFrom(FoldConstants).Draw(t, "foldC")
			delta := U64(t, "foldDelta") >> uint(rapid.IntRange(24, 63).Draw(t, "foldSh"))
			return (-delta) * inv64(c)
		}
		return rapid.SampledFrom(LimbPatterns).Draw(t, "limbPat")
	})
}

// --- auto-dictionary ---------------------------------------------------------------------------------------------------
// The driver extracts every integer literal from the non-test sources of the tree under test ($VERIF_DICT, JSON): 64-bit
// words, and 256-bit values formed by four consecutive words of a composite literal (both limb orders). Like the
// dictionaries of coverage-guided fuzzers, they let the generators aim at constants the code compares and multiplies with -
// including constants of algorithms that were not there when the generators were written.

type dictionary struct {
	Words   []uint64
	Bigs    []*big.Int
	Strings [][]byte // string literals of the sources (3..64 bytes): tags, prefixes, separators the code compares and prepends
}

var (
	dictOnce sync.Once
	dict     dictionary
)

// Dict returns the auto-dictionary (empty when the driver did not provide one).
func Dict() *dictionary {
	dictOnce.Do(func() {
		raw, err := os.ReadFile(os.Getenv("VERIF_DICT"))
		if err != nil {
			return
		}
		var in struct {
			Words   []string `json:"words"`
			Bigs    []string `json:"bigs"`
			Strings []string `json:"strings"`
		}
		if json.Unmarshal(raw, &in) != nil {
			return
		}
		for _, w := range in.Words {
			if v, ok := new(big.Int).SetString(w, 16); ok && v.BitLen() <= 64 {
				dict.Words = append(dict.Words, v.Uint64())
			}
		}
		for _, x := range in.Strings {
			if b, err := hex.DecodeString(x); err == nil && len(b) > 0 {
				dict.Strings = append(dict.Strings, b)
			}
		}
		for _, b := range in.Bigs {
			if v, ok := new(big.Int).SetString(b, 16); ok && v.Sign() > 0 {
				dict.Bigs = append(dict.Bigs, v)
			}
		}
	})
	return &dict
}

// dictLimb draws a limb related to a dictionary word w: w itself and its neighbours, its complement, or - when w is a small
// multiplier - a limb x for which x*w lands just below or just above a multiple of 2^64 (where a carry out of the low half of
// the product appears or disappears).
func dictLimb(t *rapid.T) (uint64, bool) {
	d := Dict()
	if len(d.Words) == 0 {
		return 0, false
	}
	w := d.Words[Pick(t, "dictWord", len(d.Words))]
	switch Pick(t, "dictLimbKind", 6) {
	case 0:
		return w, true
	case 1:
		return w + 1, true
	case 2:
		return w - 1, true
	case 3:
		return ^w, true
	default:
		if w < 3 {
			return w, true
		}
		// floor(j * 2^64 / w) + {-1, 0, 1}
		j := new(big.Int).SetUint64(1 + U64(t, "dictJ")%(w-1))
		q := j.Lsh(j, 64)
		q.Div(q, new(big.Int).SetUint64(w))
		return q.Uint64() + uint64(Pick(t, "dictPm", 3)) - 1, true
	}
}

var pow2s = func() []*big.Int {
	var out []*big.Int
	for _, k := range []uint{128, 192, 256, 320, 384, 448, 512} {
		out = append(out, new(big.Int).Lsh(one, k))
	}
	return out
}()

// dictInt draws a value in [0, m) aimed at the big constants of the dictionary: the constant itself (and its image mod m) with
// perturbed words, limbs taken from dictionary words, or a value v SOLVED so that floor(v*A/B) - the quotient estimate of a
// Barrett reduction, the rounded product of a scalar decomposition, a lazy-reduction bound ... - sits on a 64-bit word
// boundary (low words all ones or zero, with the discarded fraction above or below one half), for constants A and B taken
// from the dictionary, the modulus, its defect 2^256 - m and powers of two.
func dictInt(t *rapid.T, m *big.Int) *big.Int {
	d := Dict()
	if len(d.Bigs) == 0 && len(d.Words) == 0 {
		return nil
	}
	switch Pick(t, "dictIntKind", 5) {
	case 0: // limbs from dictionary words
		var l [4]uint64
		same, _ := dictLimb(t)
		for i := range l {
			switch Pick(t, "dl", 4) {
			case 0:
				l[i] = same
			case 1:
				l[i], _ = dictLimb(t)
			case 2:
				l[i] = same + uint64(Pick(t, "dlpm", 3)) - 1
			default:
				l[i] = Limb().Draw(t, "l")
			}
		}
		return FromLimbs(l)
	case 1: // a big constant, word-wise perturbed
		if len(d.Bigs) == 0 {
			return nil
		}
		c := new(big.Int).Mod(d.Bigs[Pick(t, "dictBig", len(d.Bigs))], two256)
		return PerturbWords(t, c, 64)
	case 2: // solved product: (v * A mod 2^256) has a chosen 64-bit word all ones or zero (folding / lazy-reduction carries)
		cands := append([]*big.Int{new(big.Int).Sub(two256, m), m}, d.Bigs...)
		for _, w := range d.Words {
			if w > 2 {
				cands = append(cands, new(big.Int).SetUint64(w))
			}
		}
		a := new(big.Int).Mod(cands[Pick(t, "prodA", len(cands))], two256)
		for a.Sign() != 0 && a.Bit(0) == 0 {
			a.Rsh(a, 1) // the odd part (a power of two only shifts the words)
		}
		inv := new(big.Int).ModInverse(a, two256)
		if inv == nil {
			return nil
		}
		l := ToLimbs(Uniform256().Draw(t, "prodT"))
		wi := Pick(t, "prodWord", 4)
		l[wi] = []uint64{^uint64(0), 0, ^uint64(0) - 1, 1}[Pick(t, "prodPat", 4)]
		if Pick(t, "prodTwo", 3) == 0 {
			l[(wi+3)%4] = l[wi]
		}
		v := FromLimbs(l)
		v.Mul(v, inv).Mod(v, two256)
		return v
	default: // solved quotient
		cands := append(append([]*big.Int{m, new(big.Int).Sub(two256, m)}, d.Bigs...), pow2s...)
		a := cands[Pick(t, "ratioA", len(cands))]
		b := cands[Pick(t, "ratioB", len(cands))]
		if Pick(t, "ratioBpow2", 4) != 0 { // the divisor of such estimates is mostly a power of two
			b = pow2s[Pick(t, "ratioBp", len(pow2s))]
		}
		if a.Sign() == 0 || b.Sign() == 0 || a.Cmp(b) == 0 {
			return nil
		}
		w := uint(64 * (1 + Pick(t, "ratioW", 3)))
		maxq := new(big.Int).Div(new(big.Int).Mul(m, a), b)
		maxq.Rsh(maxq, w)
		if maxq.Sign() == 0 {
			return nil
		}
		j := new(big.Int).Mod(Uniform256().Draw(t, "ratioJ"), maxq)
		j.Add(j, one)
		q := j.Lsh(j, w)
		q.Sub(q, big.NewInt(int64(Pick(t, "ratioE", 3)))) // low words zero, all ones, all ones - 1
		num := q.Mul(q, b)
		switch Pick(t, "ratioFrac", 4) { // the fraction that the division discards
		case 0:
		case 1:
			num.Add(num, new(big.Int).Rsh(b, 1))
		case 2:
			num.Add(num, new(big.Int).Mod(Uniform256().Draw(t, "fr"), b))
		default:
			half := new(big.Int).Rsh(b, 1)
			num.Add(num, half).Add(num, new(big.Int).Mod(Uniform256().Draw(t, "fr"), half.Add(half, one)))
		}
		v := num.Add(num, new(big.Int).Sub(a, one))
		v.Div(v, a) // ceil(num / a)
		v.Add(v, big.NewInt(int64(Pick(t, "ratioD", 3))-1))
		return v
	}
}

// DictFixed enumerates, deterministically, values in [0, m) aimed at the dictionary (see dictInt): for every word w the
// limb vectors (w,w,w,w), three limbs w and the fourth w-1, w+1, 0 or all ones (at the top and at the bottom); for every big
// constant A the values v for which floor(v*A/B) has its low one or two words all ones or zero with the discarded fraction
// just above one half or zero (B a power of two from 2^256 to 2^512, or m), and the values for which v*A mod 2^256 has its top
// or bottom word all ones. The checks evaluate them as fixed cases on every run. stride > 1 keeps every stride-th value.
func DictFixed(m *big.Int, stride int) []*big.Int {
	d := Dict()
	var out []*big.Int
	seen := map[string]bool{}
	add := func(v *big.Int) {
		if v == nil || v.Sign() < 0 {
			return
		}
		v = new(big.Int).Mod(v, m)
		if k := v.Text(16); !seen[k] {
			seen[k] = true
			out = append(out, v)
		}
	}
	// folded look-alikes of the special values, as canonical values and as Montgomery forms
	if rInv := new(big.Int).ModInverse(new(big.Int).Mod(two256, m), m); rInv != nil {
		for _, b := range foldBases(m)[:3] {
			for _, dl := range []uint64{1, ^uint64(0)} {
				for _, v := range FoldedLookAlikes(b, dl) {
					if v.Cmp(m) < 0 {
						add(v)
						add(new(big.Int).Mul(v, rInv))
					}
				}
			}
		}
	}
	words := d.Words
	if len(words) > 160 {
		words = words[:160]
	}
	ones := ^uint64(0)
	for _, w := range words {
		if w < 1<<16 {
			continue
		}
		add(FromLimbs([4]uint64{w, w, w, w}))
		for _, x := range []uint64{w - 1, w + 1, 0, ones} {
			add(FromLimbs([4]uint64{x, w, w, w}))
			add(FromLimbs([4]uint64{w, w, w, x}))
		}
		add(FromLimbs([4]uint64{w, 0, 0, 0}))
		add(FromLimbs([4]uint64{0, 0, 0, w}))
	}
	// small multipliers: a limb x for which x*w is just below / above a multiple of 2^64, in every position, next to limbs whose
	// products with w have a large high half
	for _, w := range words {
		if w < 3 || w >= 1<<40 {
			continue
		}
		for _, j := range []uint64{1, w / 3, w / 2, w - 1} {
			if j == 0 {
				continue
			}
			q := new(big.Int).Lsh(new(big.Int).SetUint64(j), 64)
			x := q.Div(q, new(big.Int).SetUint64(w)).Uint64()
			for _, dx := range []uint64{0, ones} { // x, x-1
				for pos := 0; pos < 4; pos++ {
					l := [4]uint64{ones - 1, ones - 1, ones - 1, ones >> 1}
					l[pos] = x + dx
					add(FromLimbs(l))
					l = [4]uint64{mix64(w + j), mix64(w + j + 1), mix64(w + j + 2), mix64(w+j+3) >> 1}
					l[pos] = x + dx
					add(FromLimbs(l))
				}
			}
		}
	}
	bigs := append([]*big.Int{new(big.Int).Sub(two256, m)}, d.Bigs...)
	if len(bigs) > 96 {
		bigs = bigs[:96]
	}
	divisors := append(append([]*big.Int{}, pow2s[2:]...), m)
	for ai, a := range bigs {
		for bi, b := range divisors {
			if a.Cmp(b) == 0 {
				continue
			}
			maxq := new(big.Int).Div(new(big.Int).Mul(m, a), b)
			for _, w := range []uint{64, 128} {
				lim := new(big.Int).Rsh(maxq, w)
				if lim.Sign() == 0 {
					continue
				}
				for e := int64(0); e <= 1; e++ {
					for frac := 0; frac < 2; frac++ {
						// a deterministic multiplier j in [1, lim]
						j := new(big.Int).SetUint64(mix64(uint64(ai*1000003+bi*10007) + uint64(w) + uint64(e)*7 + uint64(frac)*13))
						j.Mul(j, new(big.Int).SetUint64(mix64(uint64(ai)+99))).Mul(j, j).Mod(j, lim).Add(j, one)
						q := j.Lsh(j, w)
						q.Sub(q, big.NewInt(e))
						num := q.Mul(q, b)
						if frac == 1 {
							num.Add(num, new(big.Int).Rsh(b, 1)).Add(num, new(big.Int).Rsh(b, 3))
						}
						v := num.Add(num, new(big.Int).Sub(a, one))
						v.Div(v, a)
						if v.Cmp(m) < 0 {
							add(v)
						}
					}
				}
			}
		}
		odd := new(big.Int).Mod(a, two256)
		for odd.Sign() != 0 && odd.Bit(0) == 0 {
			odd.Rsh(odd, 1)
		}
		if inv := new(big.Int).ModInverse(odd, two256); inv != nil {
			for wi := 0; wi < 4; wi += 3 {
				l := ToLimbs(new(big.Int).SetUint64(mix64(uint64(ai) + 5)))
				l[1], l[2] = mix64(uint64(ai)+6), mix64(uint64(ai)+7)
				l[wi] = ones
				t := FromLimbs(l)
				add(t.Mul(t, inv).Mod(t, two256))
			}
		}
	}
	// pre-images: values that one, two or three squarings (or an inversion) take to a constant of the source tree (read as a value
	// and as a Montgomery form) - where a loop compares its running value with a literal, the interesting INPUT is a root of it
	if m.ProbablyPrime(8) {
		rInv := new(big.Int).ModInverse(new(big.Int).Mod(two256, m), m)
		pre := bigs
		if len(pre) > 48 {
			pre = pre[:48]
		}
		for _, a := range pre {
			for _, c := range []*big.Int{new(big.Int).Mod(a, m), new(big.Int).Mod(new(big.Int).Mul(a, rInv), m)} {
				if c.Sign() == 0 {
					continue
				}
				add(new(big.Int).ModInverse(c, m))
				r := c
				for depth := 0; depth < 3; depth++ {
					if r = new(big.Int).ModSqrt(r, m); r == nil {
						break
					}
					add(r)
					add(new(big.Int).Sub(m, r))
				}
			}
		}
	}
	if stride > 1 {
		var thin []*big.Int
		for i, v := range out {
			if i%stride == 0 {
				thin = append(thin, v)
			}
		}
		out = thin
	}
	return out
}

// recodingValue returns sum d_i 2^(w i) (+ 2^(w len(d)) with top), made to lie in [0, m) by flipping the sign of the leading
// digit when that is enough (nil otherwise).
func recodingValue(w uint, d []int64, top bool, m *big.Int) *big.Int {
	for try := 0; try < 2; try++ {
		v := new(big.Int)
		for i := len(d) - 1; i >= 0; i-- {
			v.Lsh(v, w).Add(v, big.NewInt(d[i]))
		}
		if top {
			v.Add(v, new(big.Int).Lsh(one, w*uint(len(d))))
		}
		if v.Sign() >= 0 && v.Cmp(m) < 0 {
			return v
		}
		d = append([]int64(nil), d...)
		d[len(d)-1] = -d[len(d)-1]
	}
	return nil
}

// RecodingDense returns scalars in [0, m) whose width-w signed-digit recoding (w = 2..8) has a non-zero odd digit in EVERY
// window - and one more digit on top (2^(w*ceil(256/w)) + negative rest): the longest and densest recodings there are.
func RecodingDense(m *big.Int) []*big.Int {
	var out []*big.Int
	for w := uint(2); w <= 8; w++ {
		n := int((256 + w - 1) / w)
		mx := int64(1)<<(w-1) - 1
		pats := []func(i int) int64{
			func(i int) int64 { return -mx }, func(i int) int64 { return mx }, func(i int) int64 { return -1 }, func(i int) int64 { return 1 },
			func(i int) int64 { return []int64{mx, -mx}[i%2] }, func(i int) int64 { return []int64{-mx, mx}[i%2] }, func(i int) int64 { return []int64{1, -1}[i%2] },
			func(i int) int64 { // mixed odd digits
				d := int64(mix64(uint64(i)*7+uint64(w))%uint64(mx+1)) | 1
				if d > mx {
					d = mx
				}
				if mix64(uint64(i)+99)&1 == 1 {
					d = -d
				}
				return d
			},
		}
		for _, pf := range pats {
			d := make([]int64, n)
			for i := range d {
				d[i] = pf(i)
			}
			for _, top := range []bool{true, false} {
				if v := recodingValue(w, d, top, m); v != nil {
					out = append(out, v)
				}
			}
		}
	}
	return out
}

// foldBases are the special values whose folded look-alikes are generated: 0, 1, 2, m-1, R = 2^256 mod m (the Montgomery form
// of 1), m-R, and R*2 - the values fast paths test for.
func foldBases(m *big.Int) []*big.Int {
	r := new(big.Int).Mod(two256, m)
	return []*big.Int{big.NewInt(1), r, big.NewInt(0), new(big.Int).Sub(m, one), new(big.Int).Sub(m, r), big.NewInt(2), new(big.Int).Mod(new(big.Int).Lsh(r, 1), m)}
}

// FoldedLookAlikes returns values that differ from base in two or three 64-bit limbs at once while a fold of the limbs is
// unchanged: the sum (l[i]+d, l[j]-d; and x, y, -(x+y) on three limbs) or the XOR (l[i]^d, l[j]^d) modulo 2^64. d = 0 is
// replaced by 1.
func FoldedLookAlikes(base *big.Int, d uint64) []*big.Int {
	if d == 0 {
		d = 1
	}
	l0 := ToLimbs(new(big.Int).Mod(base, two256))
	var out []*big.Int
	for i := 0; i < 4; i++ {
		for j := 0; j < 4; j++ {
			if i == j {
				continue
			}
			l := l0
			l[i], l[j] = l[i]+d, l[j]-d
			out = append(out, FromLimbs(l))
			if i < j {
				l = l0
				l[i], l[j] = l[i]^d, l[j]^d
				out = append(out, FromLimbs(l))
			}
		}
	}
	for skip := 0; skip < 4; skip++ { // three limbs: +d, +d', -(d+d')
		l, k := l0, 0
		for i := 0; i < 4; i++ {
			if i == skip {
				continue
			}
			l[i] += []uint64{d, mix64(d), -(d + mix64(d))}[k]
			k++
		}
		out = append(out, FromLimbs(l))
	}
	return out
}

// DictStride is the thinning the checks apply to DictFixed: every value in the main shards, every 16th in the extra (slower)
// shards that run all fixed cases.
func DictStride() int {
	if os.Getenv("VERIF_SHARDS") == "1" && os.Getenv("VERIF_SHARD") != "0" {
		return 16
	}
	return 1
}

// FoldConstants are the low 64-bit words of 2^256 - p and 2^256 - n.
var FoldConstants = []uint64{0x1000003d1, 0x402da1732fc9bebf}

// inv64 is the inverse of an odd word modulo 2^64 (Newton iteration).
func inv64(c uint64) uint64 {
	x := c
	for i := 0; i < 6; i++ {
		x *= 2 - c*x
	}
	return x
}

// FromLimbs builds an integer from four little-endian limbs.
func FromLimbs(l [4]uint64) *big.Int {
	v := new(big.Int)
	for i := 3; i >= 0; i-- {
		v.Lsh(v, 64)
		v.Or(v, new(big.Int).SetUint64(l[i]))
	}
	return v
}

// ToLimbs splits 0 <= v < 2^256 into four little-endian limbs.
func ToLimbs(v *big.Int) [4]uint64 {
	var out [4]uint64
	t := new(big.Int).Set(v)
	m := new(big.Int).Sub(two64, one)
	for i := 0; i < 4; i++ {
		out[i] = new(big.Int).And(t, m).Uint64()
		t.Rsh(t, 64)
	}
	return out
}

// mix64 is the splitmix64 finaliser (a bijection of uint64).
func mix64(x uint64) uint64 {
	x ^= x >> 30
	x *= 0xbf58476d1ce4e5b9
	x ^= x >> 27
	x *= 0x94d049bb133111eb
	x ^= x >> 31
	return x
}

// U64 draws a 64-bit word that is (close to) uniformly distributed. rapid.Uint64 is heavily biased towards small
// values (measured: top bit set in 2.3% of the draws), which is what shrinking wants but not what "random limb" means;
// two draws are mixed through bijections and combined.
func U64(t *rapid.T, label string) uint64 {
	a := rapid.Uint64().Draw(t, label)
	b := rapid.Uint64().Draw(t, label+"'")
	return mix64(a+0x9e3779b97f4a7c15) ^ bitsRotl(mix64(b^0xd1b54a32d192ed03), 29)
}

func bitsRotl(x uint64, k uint) uint64 { return x<<k | x>>(64-k) }

// RandBytes draws n bytes that are (close to) uniformly distributed.
func RandBytes(t *rapid.T, label string, n int) []byte {
	out := make([]byte, 0, n+8)
	for len(out) < n {
		w := U64(t, label)
		for i := 0; i < 8; i++ {
			out = append(out, byte(w>>(8*uint(i))))
		}
	}
	return out[:n]
}

// Uniform256 draws a uniform 256-bit integer.
func Uniform256() *rapid.Generator[*big.Int] {
	return rapid.Custom(func(t *rapid.T) *big.Int {
		var l [4]uint64
		for i := range l {
			l[i] = U64(t, "u")
		}
		return FromLimbs(l)
	})
}

// Int draws an integer in [0, m) for a 256-bit modulus m, biased towards every boundary class named in
// DESIGN.md section 3.3; simplest classes first so that shrinking moves towards small values.
func Int(m *big.Int) *rapid.Generator[*big.Int] {
	return rapid.Custom(func(t *rapid.T) *big.Int {
		kind := Pick(t, "intKind", 23)
		var v *big.Int
		switch kind {
		case 18, 19, 20: // aimed at constants found in the sources of the tree under test
			if v = dictInt(t, m); v == nil {
				v = Uniform256().Draw(t, "r")
			}
		case 22: // maximally dense signed-digit recodings (what windowed / NAF scalar recoding sizes its buffers and loops for)
			w := uint(rapid.IntRange(2, 8).Draw(t, "recW"))
			digits := make([]int64, 0, 130)
			for i := uint(0); i*w < 256; i++ {
				d := int64(2*rapid.IntRange(0, (1<<(w-2))-1).Draw(t, "recD") + 1)
				if d >= 1<<(w-1) {
					d = 1<<(w-1) - 1
				}
				if rapid.Bool().Draw(t, "recNeg") {
					d = -d
				}
				digits = append(digits, d)
			}
			v = recodingValue(w, digits, rapid.Bool().Draw(t, "recTop"), m)
		case 21: // look-alikes under a FOLD of the words: several words of a special value changed together so that their sum, XOR or
			// AND/OR stays what it was (what a comparison that folds limbs with + or ^ instead of | cannot tell apart)
			bases := foldBases(m)
			fl := FoldedLookAlikes(bases[rapid.IntRange(0, len(bases)-1).Draw(t, "foldBase")], U64(t, "foldDelta")>>uint(rapid.SampledFrom([]int{0, 63, 32, 1}).Draw(t, "foldShift")))
			v = fl[rapid.IntRange(0, len(fl)-1).Draw(t, "foldPick")]
		case 0: // tiny
			v = big.NewInt(int64(rapid.IntRange(0, 3).Draw(t, "tiny")))
		case 1: // top of the range
			v = new(big.Int).Sub(m, big.NewInt(int64(rapid.IntRange(1, 4).Draw(t, "below"))))
		case 2: // halves
			h := new(big.Int).Rsh(m, 1)
			v = new(big.Int).Add(h, big.NewInt(int64(rapid.IntRange(-1, 2).Draw(t, "half"))))
		case 3: // 2^k, 2^k +- 1
			k := rapid.IntRange(0, 255).Draw(t, "k")
			v = new(big.Int).Lsh(one, uint(k))
			v.Add(v, big.NewInt(int64(rapid.IntRange(-1, 1).Draw(t, "pm"))))
		case 4: // bit 255 set, small remainder
			v = new(big.Int).Lsh(one, 255)
			v.Add(v, new(big.Int).SetUint64(U64(t, "lo")))
		case 5: // bit 255 forced on a random value
			v = Uniform256().Draw(t, "r")
			v.SetBit(v, 255, 1)
		case 6: // limb patterns
			var l [4]uint64
			for i := range l {
				l[i] = Limb().Draw(t, "l")
			}
			v = FromLimbs(l)
		case 7: // window m - 2^k
			k := rapid.IntRange(0, 255).Draw(t, "wk")
			v = new(big.Int).Sub(m, new(big.Int).Lsh(one, uint(k)))
		case 8: // Montgomery constants R, R^2, R^-1 mod m and neighbours
			r := new(big.Int).Mod(two256, m)
			switch rapid.IntRange(0, 3).Draw(t, "mc") {
			case 0:
				v = r
			case 1:
				v = new(big.Int).Mod(new(big.Int).Mul(r, r), m)
			case 2:
				v = new(big.Int).ModInverse(r, m)
			default:
				v = new(big.Int).Sub(m, r)
			}
		case 9: // sparse: few bits set
			v = new(big.Int)
			for i := rapid.IntRange(1, 4).Draw(t, "nb"); i > 0; i-- {
				v.SetBit(v, rapid.IntRange(0, 255).Draw(t, "b"), 1)
			}
		case 10: // short: random bit length
			v = Uniform256().Draw(t, "r")
			v.Rsh(v, uint(rapid.IntRange(0, 255).Draw(t, "sh")))
		case 11: // word-sized: exactly 8, 16, 32, 64, 128 or 192 bits wide (top bit of the word set)
			bits := rapid.SampledFrom([]int{64, 32, 128, 192, 16, 8, 63, 65}).Draw(t, "wbits")
			v = Uniform256().Draw(t, "r")
			v.Rsh(v, uint(256-bits))
			v.SetBit(v, bits-1, 1)
			if rapid.Bool().Draw(t, "allones") {
				v = new(big.Int).Sub(new(big.Int).Lsh(one, uint(bits)), big.NewInt(int64(rapid.IntRange(1, 2).Draw(t, "d"))))
			}
		case 12: // limbs with a zero limb below a non-zero one, or equal limbs
			var l [4]uint64
			for i := range l {
				l[i] = U64(t, "l")
			}
			z := rapid.IntRange(0, 2).Draw(t, "zl")
			l[z] = 0
			if rapid.Bool().Draw(t, "two") {
				l[(z+1)%3] = 0
			}
			v = FromLimbs(l)
		case 16: // a subset of the limbs saturated (or zeroed), the others uniformly random: long carry / borrow propagation
			fill := uint64(0)
			if rapid.Bool().Draw(t, "ones") {
				fill = ^uint64(0)
			}
			var l [4]uint64
			for i := range l {
				l[i] = U64(t, "l")
				if Pick(t, "sat", 2) == 1 {
					l[i] = fill
				}
			}
			v = FromLimbs(l)
		case 13: // algebraic constants of the modulus that fast paths key on: cube roots of unity, 1/2, 1/3, sqrt(-1), +-1 around them
			cs := algebraicConstants(m)
			v = new(big.Int).Set(cs[rapid.IntRange(0, len(cs)-1).Draw(t, "alg")])
			v.Add(v, big.NewInt(int64(rapid.IntRange(-1, 1).Draw(t, "algd"))))
		case 14: // repeated limbs: every limb is 0 or the same word k (what cancels under a mistaken XOR)
			k := Limb().Draw(t, "k")
			var l [4]uint64
			for i := range l {
				if rapid.Bool().Draw(t, "on") {
					l[i] = k
				}
			}
			v = FromLimbs(l)
		case 15: // just below a small fraction of 2^256: floor(j * 2^256 / d) - delta (where multiplying by the small constant d wraps)
			d := int64(rapid.SampledFrom([]int{21, 11, 3, 7, 1771, 5, 9, 2, 4, 8}).Draw(t, "d"))
			j := int64(rapid.IntRange(1, int(d)).Draw(t, "j"))
			v = new(big.Int).Div(new(big.Int).Mul(big.NewInt(j), two256), big.NewInt(d))
			v.Sub(v, new(big.Int).SetUint64(U64(t, "delta")>>uint(rapid.IntRange(24, 63).Draw(t, "dsh"))))
		default:
			v = Uniform256().Draw(t, "r")
		}
		if v == nil { // ModInverse of a non-invertible value (moduli other than the two primes)
			v = big.NewInt(1)
		}
		if v.Sign() < 0 {
			v.Mod(v, m)
		}
		if v.Cmp(m) >= 0 {
			v.Mod(v, m)
		}
		return v
	})
}

// NonZeroInt draws from Int(m) excluding zero.
func NonZeroInt(m *big.Int) *rapid.Generator[*big.Int] {
	return rapid.Custom(func(t *rapid.T) *big.Int {
		v := Int(m).Draw(t, "nz")
		if v.Sign() == 0 {
			return big.NewInt(1)
		}
		return v
	})
}

// H is the hex form used in case files (fixed 64 digits for 256-bit values).
func H(v *big.Int) string {
	b := make([]byte, 32)
	if v.BitLen() > 256 {
		return v.Text(16)
	}
	v.FillBytes(b)
	return hex.EncodeToString(b)
}

// B parses a hex string of a case file (panics on malformed harness data).
func B(s string) *big.Int {
	v, ok := new(big.Int).SetString(s, 16)
	if !ok {
		if s == "" {
			return new(big.Int)
		}
		panic("bad hex in case: " + s)
	}
	return v
}

// HexBytes decodes a hex string from a case file.
func HexBytes(s string) []byte {
	b, err := hex.DecodeString(s)
	if err != nil {
		panic("bad hex bytes in case: " + s)
	}
	return b
}

// Bytes draws a byte string of length in [min, max].
func Bytes(min, max int) *rapid.Generator[[]byte] {
	return rapid.SliceOfN(rapid.Byte(), min, max)
}

// Layout describes where a slice sits in its backing array and what the memory around it holds.
type Layout struct {
	Pre  int `json:"pre"`
	Post int `json:"post"`
	// Fill selects what the bytes around the slice (in particular its spare capacity) hold: 0 the canary pattern, 1 zeros,
	// 2 the length of the slice mod 256 (what a length-suffixed copy of the slice would continue with), 3 0x20, 4 the two-byte
	// big-endian length repeated, 5 0xff, 6 a repetition of the slice's own content. The callee was given len(slice) bytes: what
	// lies beyond is not its business, whatever it looks like.
	Fill int `json:"fill,omitempty"`
	// Tail: Pre is enlarged so that the slice ends exactly at the end of its heap allocation (a size class), with no spare
	// capacity: one-past-the-end pointer arithmetic then points into a neighbouring object.
	Tail bool `json:"tail,omitempty"`
}

// NumFills is the number of Fill patterns.
const NumFills = 7

// LayoutGen draws a slice layout: interior offset, spare capacity and surrounding content.
func LayoutGen() *rapid.Generator[Layout] {
	return rapid.Custom(func(t *rapid.T) Layout {
		l := Layout{
			Pre:  rapid.SampledFrom([]int{0, 0, 1, 5, 32}).Draw(t, "pre"),
			Post: rapid.SampledFrom([]int{0, 1, 1, 7, 64}).Draw(t, "post"),
		}
		if Chance(t, "fill", 1, 2) {
			l.Fill = Pick(t, "fillKind", NumFills)
		}
		if Chance(t, "tail", 1, 8) {
			l.Tail, l.Post = true, 0
		}
		return l
	})
}

// Canary is the fill byte pattern of guard regions.
func Canary(i int) byte { return byte(0xA5 ^ (i * 29)) }

func fillByte(kind, i, n int, data []byte) byte {
	switch kind {
	case 1:
		return 0
	case 2:
		return byte(n)
	case 3:
		return 0x20
	case 4:
		if i%2 == 0 {
			return byte(n >> 8)
		}
		return byte(n)
	case 5:
		return 0xff
	case 6:
		if len(data) > 0 {
			return data[i%len(data)]
		}
	}
	return Canary(i)
}

// Place returns data laid out as buf[pre : pre+len : pre+len+post] inside a filled buffer, and the whole backing buffer.
func Place(data []byte, l Layout) (slice, backing []byte) {
	pre, post := l.Pre, l.Post
	if l.Tail {
		post = 0
		if total := pre + len(data); total <= 256 {
			want := max(48, (total+15)/16*16) // 48, 64, 80, ... 256 are allocator size classes
			pre += want - total
		}
	}
	backing = make([]byte, pre+len(data)+post)
	for i := range backing {
		backing[i] = Canary(i)
	}
	// what follows the slice starts right behind it (index 0 of the fill pattern is the first byte of the spare capacity)
	for i := pre + len(data); i < len(backing); i++ {
		backing[i] = fillByte(l.Fill, i-pre-len(data), len(data), data)
	}
	copy(backing[pre:], data)
	if data == nil && pre == 0 && post == 0 {
		return nil, backing
	}
	return backing[pre : pre+len(data) : pre+len(data)+post], backing
}

// Chance returns true with probability about num/den. rapid's integer generators are biased towards
// small values, so the draw is mixed first; the all-zero draw (what shrinking converges to) maps to false.
func Chance(t *rapid.T, label string, num, den uint64) bool {
	v := rapid.Uint64().Draw(t, label)
	mixed := (v * 0x9E3779B97F4A7C15) >> 20
	return mixed%den >= den-num
}

// Pick returns an index in [0, n) approximately uniformly (see Chance); the zero draw maps to index 0.
func Pick(t *rapid.T, label string, n int) int {
	v := rapid.Uint64().Draw(t, label)
	mixed := (v * 0x9E3779B97F4A7C15) >> 20
	return int(mixed % uint64(n))
}

// PerturbWords returns base (a 256-bit value) with each wordBits-wide word independently kept, incremented,
// decremented, zeroed, saturated or randomised. It reaches inputs that agree with a comparison constant in some
// words and differ in several others - what word-by-word (lexicographic) comparisons get wrong.
func PerturbWords(t *rapid.T, base *big.Int, wordBits uint) *big.Int {
	n := 256 / int(wordBits)
	mask := new(big.Int).Sub(new(big.Int).Lsh(one, wordBits), one)
	out := new(big.Int)
	for i := n - 1; i >= 0; i-- {
		w := new(big.Int).And(new(big.Int).Rsh(base, uint(i)*wordBits), mask)
		switch rapid.IntRange(0, 8).Draw(t, "wordHow") {
		case 8: // same as the previous (more significant) output word
			if i < n-1 {
				w = new(big.Int).And(new(big.Int).Rsh(out, 0), mask)
			}
		case 0, 1, 2: // keep
		case 3:
			w.Add(w, one).And(w, mask)
		case 4:
			w.Sub(w, one).And(w, mask)
		case 5:
			w.SetInt64(0)
		case 6:
			w.Set(mask)
		default:
			w = new(big.Int).And(new(big.Int).SetUint64(U64(t, "word")), mask)
		}
		out.Lsh(out, wordBits).Or(out, w)
	}
	return out
}

// IntBoth draws an integer in [0, m) whose boundary structure sits either in the canonical value or in its
// Montgomery representation: with probability about 1/3 the pattern m0 from Int(m) is used as the Montgomery form, i.e.
// the value returned is m0 * 2^-256 mod m (such values look random in canonical form but have, e.g., zero high limbs
// or single-bit limbs in the representation the code computes on).
func IntBoth(m *big.Int) *rapid.Generator[*big.Int] {
	r := new(big.Int).Mod(two256, m)
	rInv := new(big.Int).ModInverse(r, m)
	return rapid.Custom(func(t *rapid.T) *big.Int {
		v := Int(m).Draw(t, "v")
		if rInv != nil && rapid.IntRange(0, 2).Draw(t, "montDomain") == 0 {
			return v.Mod(v.Mul(v, rInv), m)
		}
		return v
	})
}

// WordProducts enumerates every 256-bit value whose wordBits-wide words are each taken from choices(word of base):
// an exhaustive sweep of the neighbourhood of a comparison constant at word granularity.
func WordProducts(base *big.Int, wordBits uint, choices func(w uint64, mask uint64) []uint64) []*big.Int {
	n := 256 / int(wordBits)
	mask := ^uint64(0)
	if wordBits < 64 {
		mask = 1<<wordBits - 1
	}
	opts := make([][]uint64, n)
	for i := 0; i < n; i++ {
		w := new(big.Int).And(new(big.Int).Rsh(base, uint(i)*wordBits), new(big.Int).SetUint64(mask)).Uint64()
		seen := map[uint64]bool{}
		for _, c := range choices(w, mask) {
			c &= mask
			if !seen[c] {
				seen[c] = true
				opts[i] = append(opts[i], c)
			}
		}
	}
	var out []*big.Int
	idx := make([]int, n)
	for {
		v := new(big.Int)
		for i := n - 1; i >= 0; i-- {
			v.Lsh(v, wordBits).Or(v, new(big.Int).SetUint64(opts[i][idx[i]]))
		}
		out = append(out, v)
		k := 0
		for k < n {
			idx[k]++
			if idx[k] < len(opts[k]) {
				break
			}
			idx[k] = 0
			k++
		}
		if k == n {
			return out
		}
	}
}

// Neighbours5 is {w-1, w, w+1, 0, all-ones}; Neighbours3 is {w-1, w, w+1}; Patterns4 ignores w: {0, 1, 2^(bits-1), all-ones}.
func Neighbours5(w, mask uint64) []uint64 { return []uint64{w - 1, w, w + 1, 0, mask} }

// Neighbours3 is {w-1, w, w+1}.
func Neighbours3(w, mask uint64) []uint64 { return []uint64{w - 1, w, w + 1} }

// Patterns4 is {0, 1, top bit, all-ones}.
func Patterns4(w, mask uint64) []uint64 { return []uint64{0, 1, mask ^ (mask >> 1), mask} }

var algCache = map[string][]*big.Int{}

// algebraicConstants returns, for a prime modulus m, the constants that optimised code special-cases: the non-trivial
// cube roots of unity (endomorphism eigenvalues), 1/2, -1/2, 1/3, a square root of -1 when it exists, and -1.
func algebraicConstants(m *big.Int) []*big.Int {
	key := m.String()
	if c, ok := algCache[key]; ok {
		return c
	}
	out := []*big.Int{new(big.Int).Sub(m, one)}
	if inv := new(big.Int).ModInverse(big.NewInt(2), m); inv != nil {
		out = append(out, inv, new(big.Int).Sub(m, inv))
	}
	if inv := new(big.Int).ModInverse(big.NewInt(3), m); inv != nil {
		out = append(out, inv)
	}
	m1 := new(big.Int).Sub(m, one)
	if m.ProbablyPrime(8) {
		if new(big.Int).Mod(m1, big.NewInt(3)).Sign() == 0 {
			e := new(big.Int).Div(m1, big.NewInt(3))
			for g := int64(2); g < 50; g++ {
				w := new(big.Int).Exp(big.NewInt(g), e, m)
				if w.Cmp(one) != 0 {
					out = append(out, w, new(big.Int).Mod(new(big.Int).Mul(w, w), m))
					break
				}
			}
		}
		if r := new(big.Int).ModSqrt(m1, m); r != nil {
			out = append(out, r)
		}
	}
	algCache[key] = out
	return out
}

var quotientAimed = func() []uint64 {
	var out []uint64
	for _, hexm := range []string{
		"fffffffffffffffffffffffffffffffebaaedce6af48a03bbfd25e8cd0364141", // n
		"fffffffffffffffffffffffffffffffffffffffffffffffffffffffefffffc2f", // p
	} {
		m, _ := new(big.Int).SetString(hexm, 16)
		c := new(big.Int).Sub(two256, m)
		q := new(big.Int).Div(new(big.Int).Lsh(one, uint(c.BitLen()+63)), c).Uint64()
		m0 := new(big.Int).And(m, new(big.Int).SetUint64(^uint64(0))).Uint64()
		for d := -2; d <= 2; d++ {
			// a0 * (-m0^-1) = q + d  (mod 2^64)   =>   a0 = -(q + d) * m0
			out = append(out, -(q+uint64(int64(d)))*m0)
		}
	}
	return out
}()

// Wide48 draws 48-byte expander outputs by class.
func Wide48(t *rapid.T, m *big.Int) []byte {
	two384 := new(big.Int).Lsh(one, 384)
	two192 := new(big.Int).Lsh(one, 192)
	var v *big.Int
	switch Pick(t, "k48", 12) {
	case 10, 11: // q*m + r with a large quotient and a remainder from the boundary-biased generator (incl. the dictionary-aimed
		// classes) or at the modulus defect c = 2^256 - m, 2c, m - c and their neighbours: where a quotient estimate that is one
		// short leaves a remainder of more than 256 bits
		q := new(big.Int).SetBytes(RandBytes(t, "q", 16))
		if Pick(t, "qTop", 2) == 0 {
			q.SetBit(q, 127, 1)
		}
		var r *big.Int
		c := new(big.Int).Sub(new(big.Int).Lsh(one, 256), m)
		switch Pick(t, "remKind", 4) {
		case 0:
			r = Int(m).Draw(t, "rem")
		case 1:
			r = new(big.Int).Add(c, new(big.Int).SetUint64(U64(t, "remd")>>uint(rapid.IntRange(0, 63).Draw(t, "remsh"))))
		case 2:
			r = new(big.Int).Sub(c, big.NewInt(int64(rapid.IntRange(0, 3).Draw(t, "remm"))))
		default:
			r = new(big.Int).Sub(m, new(big.Int).Add(c, big.NewInt(int64(rapid.IntRange(-2, 2).Draw(t, "remn")))))
		}
		r.Mod(r, m)
		v = q.Mul(q, m).Add(q, r)
		if v.BitLen() > 384 {
			v.Mod(v, two384)
		}
	case 9: // high part = floor(2^k / c) +- d for the modulus defect c = 2^256 - m (where folding hi*c back wraps), low part high
		c := new(big.Int).Sub(new(big.Int).Lsh(one, 256), m)
		k := uint(rapid.SampledFrom([]int{256, 255, 257, 320, 384}).Draw(t, "qk"))
		hi := new(big.Int).Div(new(big.Int).Sub(new(big.Int).Lsh(one, k), one), c)
		hi.Add(hi, big.NewInt(int64(rapid.IntRange(-1, 1).Draw(t, "qd"))))
		hi.Mod(hi, new(big.Int).Lsh(one, 128))
		lo := new(big.Int).Sub(new(big.Int).Lsh(one, 256), one)
		if !rapid.Bool().Draw(t, "loAllOnes") {
			lo.Sub(lo, Int(new(big.Int).Lsh(one, 200)).Draw(t, "lod"))
		}
		v = hi.Lsh(hi, 256).Add(hi, lo)
	case 0:
		v = new(big.Int).Sub(two384, big.NewInt(int64(rapid.IntRange(1, 3).Draw(t, "d")))) // all ones
	case 1: // low half zero
		hi := Int(two192).Draw(t, "hi")
		v = hi.Lsh(hi, 192)
	case 2: // high half zero
		v = Int(two192).Draw(t, "lo")
	case 3: // high half all ones
		v = new(big.Int).Sub(two192, one)
		v.Lsh(v, 192).Add(v, Int(two192).Draw(t, "lo"))
	case 4: // multiples of m and neighbours
		k := Int(new(big.Int).Lsh(one, 127)).Draw(t, "k")
		v = k.Mul(k, m)
		v.Add(v, big.NewInt(int64(rapid.IntRange(-2, 2).Draw(t, "d"))))
	case 5: // value just around m, 2m
		v = new(big.Int).Mul(m, big.NewInt(int64(rapid.IntRange(1, 3).Draw(t, "mult"))))
		v.Add(v, big.NewInt(int64(rapid.IntRange(-2, 2).Draw(t, "d"))))
	case 6: // limb patterns
		v = new(big.Int)
		for i := 0; i < 6; i++ {
			v.Lsh(v, 64)
			v.Or(v, new(big.Int).SetUint64(Limb().Draw(t, "l")))
		}
	default:
		v = new(big.Int).SetBytes(RandBytes(t, "rnd", 48))
	}
	if v.Sign() < 0 {
		v.Neg(v)
	}
	v.Mod(v, two384)
	out := make([]byte, 48)
	v.FillBytes(out)
	return out
}
