// Package gen holds the shared plumbing of all checks: the Check type (generator + oracle + fixed cases +
// replay), run statistics written for the evidence files, and the shared value generators.
package gen

import (
	"crypto"
	"crypto/rand"
	"crypto/sha256"
	"encoding/binary"
	"encoding/json"
	"errors"
	"flag"
	"fmt"
	"hash"
	"hash/fnv"
	"math/big"
	"os"
	"path/filepath"
	"runtime"
	"runtime/debug"
	"sort"
	"strconv"
	"strings"
	"sync"
	"testing"
	"time"

	"github.com/bytemare/secp256k1/verifharness/ref"
	"pgregory.net/rapid"
)

// Obs collects the classification of one executed case.
type Obs struct {
	nonTrivial bool
	classes    []string
}

// NonTrivial marks the case as non-trivial by the check's stated rule.
func (o *Obs) NonTrivial() { o.nonTrivial = true }

// NonTrivialIf marks the case as non-trivial when cond holds.
func (o *Obs) NonTrivialIf(cond bool) {
	if cond {
		o.nonTrivial = true
	}
}

// Class adds a class label (histogram key).
func (o *Obs) Class(format string, args ...any) {
	if len(args) == 0 {
		o.classes = append(o.classes, format)
		return
	}
	o.classes = append(o.classes, fmt.Sprintf(format, args...))
}

// ClassIf adds a class label when cond holds.
func (o *Obs) ClassIf(cond bool, label string) {
	if cond {
		o.classes = append(o.classes, label)
	}
}

// Failure is a property violation with a class naming the call site and input region that failed.
type Failure struct {
	Class string
	Msg   string
}

func (f *Failure) Error() string { return f.Class + ": " + f.Msg }

// Fail builds a Failure.
func Fail(class, format string, args ...any) error {
	return &Failure{Class: class, Msg: fmt.Sprintf(format, args...)}
}

// Inconclusive is returned by a run function when the harness itself cannot decide (never a violation).
type Inconclusive struct{ Msg string }

func (e *Inconclusive) Error() string { return "inconclusive: " + e.Msg }

type replayFile struct {
	Property string `json:"property"`
	Check    string `json:"check"`
	Error    string `json:"error,omitempty"`
	Class    string `json:"class,omitempty"`
	// Platform of the process that found the failure; the driver replays under the same one.
	GOARCH     string            `json:"goarch,omitempty"`
	GOMAXPROCS int               `json:"gomaxprocs,omitempty"`
	NumCPU     int               `json:"num_cpu,omitempty"`
	RaceBuild  bool              `json:"race_build,omitempty"`
	AltBuild   bool              `json:"alt_build,omitempty"`
	Env        map[string]string `json:"env,omitempty"` // environment switches of the harness that were on (cold-start faults, hostile entropy)
	Case       json.RawMessage   `json:"case"`
}

type registered struct {
	replay func(raw json.RawMessage) error
}

var (
	registryMu sync.Mutex
	registry   = map[string]registered{}
)

// Check is one executable property: a generator, an oracle and fixed cases.
type Check[C any] struct {
	Name   string  // e.g. "C14/bits"; the part before '/' is the property id
	Weight float64 // multiplier applied to the base case count of the run
	Gen    func(t *rapid.T) C
	Run    func(c C, o *Obs) error
	Fixed  func() []C // boundary cases evaluated on every run before generation
	// Required lists class labels that must be seen at least once, otherwise the run is inconclusive.
	Required []string

	stats *Stats
}

// Property returns the property id of the check.
func (c *Check[C]) Property() string { return strings.SplitN(c.Name, "/", 2)[0] }

// Register makes the check replayable and returns it.
func Register[C any](c *Check[C]) *Check[C] {
	if c.Weight == 0 {
		c.Weight = 1
	}
	registryMu.Lock()
	defer registryMu.Unlock()
	if _, dup := registry[c.Name]; dup {
		panic("duplicate check " + c.Name)
	}
	registry[c.Name] = registered{replay: func(raw json.RawMessage) error {
		var v C
		dec := json.NewDecoder(strings.NewReader(string(raw)))
		if err := dec.Decode(&v); err != nil {
			return &Inconclusive{Msg: "cannot decode case: " + err.Error()}
		}
		return c.exec(v, &Obs{})
	}}
	return c
}

// exec runs the oracle on one case, converting panics into failures.
func (c *Check[C]) exec(v C, o *Obs) (err error) {
	defer func() {
		if r := recover(); r != nil {
			err = Fail("panic", "unexpected panic: %v\n%s", r, debug.Stack())
		}
	}()
	return c.Run(v, o)
}

func envInt(name string, def int) int {
	if v := os.Getenv(name); v != "" {
		if n, err := strconv.Atoi(v); err == nil {
			return n
		}
	}
	return def
}

func openClasses() map[string]bool {
	out := map[string]bool{}
	for _, s := range strings.Split(os.Getenv("VERIF_OPEN_CLASSES"), ";") {
		if s = strings.TrimSpace(s); s != "" {
			out[s] = true
		}
	}
	return out
}

func seedFor(name string) uint64 {
	h := fnv.New64a()
	fmt.Fprintf(h, "%s|%s|%s", os.Getenv("VERIF_SEED"), os.Getenv("VERIF_SHARD"), name)
	s := h.Sum64()
	if s == 0 {
		s = 1
	}
	return s
}

// Execute runs fixed cases, then the generated search, recording statistics; on failure it writes the
// minimal case as a replay file and fails the test.
func (c *Check[C]) Execute(t *testing.T) {
	t.Helper()
	c.stats = newStats(c.Name)
	open := openClasses()
	var (
		failed   *C
		failErr  error
		inconcl  error
		shard    = envInt("VERIF_SHARD", 0)
		base     = envInt("VERIF_CASES", 200)
		requests = int(float64(base) * c.Weight)
	)
	if requests < 1 {
		requests = 1
	}
	c.stats.Requested = requests
	t.Cleanup(func() {
		c.stats.Required = c.Required
		if inconcl != nil {
			c.stats.Inconclusive = inconcl.Error()
		}
		if failed != nil {
			path := writeReplay(c.Property(), c.Name, *failed, failErr)
			c.stats.Violations = 1
			c.stats.Replay = path
			fmt.Printf("VERIF-FAIL check=%s replay=%s\n", c.Name, path)
		}
		c.stats.flush(shard)
	})

	// Watchdog: every case of every check is a handful of calls that take micro- to milliseconds (the slowest, C17, bounds
	// its own sub-processes). A case that has not finished after caseTimeout is not slow, it is blocked (deadlock, leaked
	// resource): it is reported as a violation with the case as replay file. The margin is several orders of magnitude.
	caseTimeout := time.Duration(envInt("VERIF_CASE_TIMEOUT_S", 300)) * time.Second
	var (
		wdMu      sync.Mutex
		wdCurrent *C
		wdTimer   *time.Timer
	)
	arm := func(v *C) {
		wdMu.Lock()
		defer wdMu.Unlock()
		wdCurrent = v
		if wdTimer != nil {
			wdTimer.Stop()
		}
		if v != nil {
			wdTimer = time.AfterFunc(caseTimeout, func() {
				wdMu.Lock()
				cur := wdCurrent
				wdMu.Unlock()
				if cur == nil {
					return
				}
				path := writeReplay(c.Property(), c.Name, *cur, Fail("hang", "the case did not finish within %v: a call never returned", caseTimeout))
				fmt.Printf("VERIF-FAIL check=%s replay=%s\n", c.Name, path)
				fmt.Printf("--- the case did not finish within %v (blocked call); goroutines:\n", caseTimeout)
				buf := make([]byte, 1<<16)
				fmt.Printf("%s\n", buf[:runtime.Stack(buf, true)])
				os.Exit(1)
			})
		}
	}
	t.Cleanup(func() { arm(nil) })

	persist := os.Getenv("VERIF_PERSIST_CURRENT")
	one := func(v C, fixed bool) error {
		o := &Obs{}
		if persist != "" {
			// second run of a shard whose process was killed by the runtime: leave the case on disk before running it
			raw, _ := json.Marshal(v)
			rf := replayFile{Property: c.Property(), Check: c.Name, Case: raw, GOARCH: runtime.GOARCH, GOMAXPROCS: runtime.GOMAXPROCS(0), NumCPU: runtime.NumCPU(),
				RaceBuild: os.Getenv("VERIF_RACE_BUILD") == "1", AltBuild: os.Getenv("VERIF_ALT_BUILD") == "1", Env: harnessEnv(), Class: "process-killed", Error: "the process was killed by the Go runtime (fatal error) while it ran this case"}
			out, _ := json.MarshalIndent(rf, "", " ")
			_ = os.WriteFile(persist, append(out, '\n'), 0o644)
		}
		arm(&v)
		err := c.exec(v, o)
		arm(nil)
		var f *Failure
		if errors.As(err, &f) && open[c.Name+":"+f.Class] {
			c.stats.recordExcluded()
			return nil
		}
		var inc *Inconclusive
		if errors.As(err, &inc) {
			inconcl = err
			return nil
		}
		c.stats.record(v, o, fixed)
		return err
	}

	// Fixed cases are identical in every shard: fixed case i runs on shard i mod nshards.
	nshards := envInt("VERIF_SHARDS", 1)
	if c.Fixed != nil {
		for i, v := range c.Fixed() {
			if i%nshards != shard%nshards {
				continue
			}
			if err := one(v, true); err != nil {
				vv := v
				failed, failErr = &vv, err
				t.Fatalf("fixed case %d of %s failed: %v", i, c.Name, err)
			}
		}
	}
	if c.Gen == nil {
		c.stats.Requested = 0 // a check made of fixed cases only
		return
	}
	_ = flag.Set("rapid.checks", strconv.Itoa(requests))
	_ = flag.Set("rapid.seed", strconv.FormatUint(seedFor(c.Name), 10))
	_ = flag.Set("rapid.nofailfile", "true")
	if st := os.Getenv("VERIF_SHRINKTIME"); st != "" {
		_ = flag.Set("rapid.shrinktime", st) // checks whose cases are slow when they fail (hanging programs) bound their shrinking
	}
	rapid.Check(t, func(rt *rapid.T) {
		v := c.Gen(rt)
		if err := one(v, false); err != nil {
			vv := v
			failed, failErr = &vv, err
			rt.Fatalf("%s: %v", c.Name, err)
		}
	})
}

// FuzzOne runs the oracle on one case decoded from fuzzer input (native go test -fuzz targets). A failure
// is saved as an ordinary replay file, so fuzz findings replay exactly like rapid findings.
func (c *Check[C]) FuzzOne(t *testing.T, v C) {
	t.Helper()
	err := c.exec(v, &Obs{})
	if err == nil {
		return
	}
	var inc *Inconclusive
	if errors.As(err, &inc) {
		return
	}
	var f *Failure
	if errors.As(err, &f) && openClasses()[c.Name+":"+f.Class] {
		return
	}
	path := writeReplay(c.Property(), c.Name, v, err)
	fmt.Printf("VERIF-FAIL check=%s replay=%s\n", c.Name, path)
	t.Fatalf("%s: %v", c.Name, err)
}

// harnessEnv returns the process-level switches a replay must set again.
func harnessEnv() map[string]string {
	out := map[string]string{}
	for _, k := range []string{"VERIF_COLD_OUTAGE", "VERIF_HOSTILE_ENTROPY", "VERIF_FOREIGN_HASH"} {
		if v := os.Getenv(k); v != "" {
			out[k] = v
		}
	}
	if len(out) == 0 {
		return nil
	}
	return out
}

func writeReplay(property, check string, v any, err error) string {
	dir := os.Getenv("VERIF_REPLAY_DIR")
	if dir == "" {
		dir = "/verif/replays"
	}
	_ = os.MkdirAll(dir, 0o755)
	raw, _ := json.Marshal(v)
	rf := replayFile{Property: property, Check: check, Case: raw, GOARCH: runtime.GOARCH, GOMAXPROCS: runtime.GOMAXPROCS(0), NumCPU: runtime.NumCPU(), RaceBuild: os.Getenv("VERIF_RACE_BUILD") == "1", AltBuild: os.Getenv("VERIF_ALT_BUILD") == "1", Env: harnessEnv()}
	if err != nil {
		rf.Error = err.Error()
		var f *Failure
		if errors.As(err, &f) {
			rf.Class = f.Class
		}
	}
	h := fnv.New32a()
	h.Write([]byte(check))
	h.Write(raw)
	name := fmt.Sprintf("%s-%08x.json", strings.ReplaceAll(check, "/", "_"), h.Sum32())
	path := filepath.Join(dir, name)
	out, _ := json.MarshalIndent(rf, "", " ")
	_ = os.WriteFile(path, append(out, '\n'), 0o644)
	return path
}

// Replay runs the case stored in a replay file through the registered oracle, without rapid.
func Replay(path string) (check string, err error) {
	raw, rerr := os.ReadFile(path)
	if rerr != nil {
		return "", &Inconclusive{Msg: rerr.Error()}
	}
	var rf replayFile
	if jerr := json.Unmarshal(raw, &rf); jerr != nil {
		return "", &Inconclusive{Msg: jerr.Error()}
	}
	registryMu.Lock()
	r, ok := registry[rf.Check]
	registryMu.Unlock()
	if !ok {
		return rf.Check, ErrNotHere
	}
	return rf.Check, r.replay(rf.Case)
}

// ErrNotHere means the replay file belongs to a check of another test binary.
var ErrNotHere = errors.New("check not registered in this binary")

// ReplayMain implements the TestReplay entry point shared by all harness packages: it replays
// $VERIF_REPLAY and prints a verdict line the driver parses.
func ReplayMain(t *testing.T) {
	path := os.Getenv("VERIF_REPLAY")
	if path == "" {
		t.Skip("VERIF_REPLAY not set")
	}
	check, err := Replay(path)
	var inc *Inconclusive
	switch {
	case errors.Is(err, ErrNotHere):
		fmt.Printf("VERIF-REPLAY-NOTHERE check=%s\n", check)
	case errors.As(err, &inc):
		fmt.Printf("VERIF-REPLAY-INCONCLUSIVE check=%s %v\n", check, err)
	case err != nil:
		cls := ""
		var f *Failure
		if errors.As(err, &f) {
			cls = f.Class
		}
		fmt.Printf("VERIF-REPLAY-FAIL check=%s class=%s\n%v\n", check, cls, err)
		t.Fail()
	default:
		fmt.Printf("VERIF-REPLAY-PASS check=%s\n", check)
	}
}

// ---------------------------------------------------------------------------------------------------

// Stats is what one shard of one check reports to the driver.
type Stats struct {
	Check        string            `json:"check"`
	Shard        int               `json:"shard"`
	Requested    int               `json:"requested"`
	Evaluations  int               `json:"evaluations"`
	FixedCases   int               `json:"fixed_cases"`
	NonTrivial   int               `json:"nontrivial_evaluations"`
	Distinct     int               `json:"distinct_nontrivial_in_shard"`
	Excluded     int               `json:"excluded_known"`
	Classes      map[string]int    `json:"classes"`
	Samples      []json.RawMessage `json:"samples"`
	Required     []string          `json:"required_classes"`
	Violations   int               `json:"violations"`
	Replay       string            `json:"replay,omitempty"`
	Inconclusive string            `json:"inconclusive,omitempty"`
	Extra        map[string]any    `json:"extra,omitempty"`

	hashes map[uint64]struct{}
}

func newStats(name string) *Stats {
	return &Stats{Check: name, Classes: map[string]int{}, hashes: map[uint64]struct{}{}, Extra: map[string]any{}}
}

const maxSamples = 6

func (s *Stats) recordExcluded() { s.Excluded++ }

func (s *Stats) record(v any, o *Obs, fixed bool) {
	s.Evaluations++
	if fixed {
		s.FixedCases++
	}
	for _, c := range o.classes {
		s.Classes[c]++
	}
	if !o.nonTrivial {
		return
	}
	s.NonTrivial++
	raw, err := json.Marshal(v)
	if err != nil {
		return
	}
	h := fnv.New64a()
	h.Write(raw)
	k := h.Sum64()
	if _, seen := s.hashes[k]; seen {
		return
	}
	s.hashes[k] = struct{}{}
	// keep a few samples spread over the run: the first two, then reservoir-like by hash
	if len(s.Samples) < 2 || (len(s.Samples) < maxSamples && k%97 == 0) {
		s.Samples = append(s.Samples, raw)
	}
}

// SetExtra stores an additional evidence value.
func (c *Check[C]) SetExtra(key string, v any) {
	if c.stats != nil {
		c.stats.Extra[key] = v
	}
}

func (s *Stats) flush(shard int) {
	dir := os.Getenv("VERIF_STATS_DIR")
	if dir == "" {
		return
	}
	s.Shard = shard
	s.Distinct = len(s.hashes)
	base := filepath.Join(dir, fmt.Sprintf("%s.%d", strings.ReplaceAll(s.Check, "/", "_"), shard))
	out, _ := json.Marshal(s)
	_ = os.WriteFile(base+".stats.json", out, 0o644)
	keys := make([]uint64, 0, len(s.hashes))
	for k := range s.hashes {
		keys = append(keys, k)
	}
	sort.Slice(keys, func(i, j int) bool { return keys[i] < keys[j] })
	buf := make([]byte, 8*len(keys))
	for i, k := range keys {
		binary.LittleEndian.PutUint64(buf[8*i:], k)
	}
	_ = os.WriteFile(base+".hashes", buf, 0o644)
}

// Main is the TestMain shared by all harness packages: oracle self-test first (exit 2 on failure).
// ColdStart, when set (package pt sets it), calls every public API function once; Main runs it while the system randomness
// source is failing when $VERIF_COLD_OUTAGE is set.
var ColdStart func()

type outageReader struct{}

func (outageReader) Read([]byte) (int, error) {
	return 0, errors.New("entropy source unavailable (scripted outage)")
}

func Main(m *testing.M) {
	if err := ref.SelfTest(); err != nil {
		fmt.Printf("VERIF-ORACLE-SELFTEST-FAILED %v\n", err)
		os.Exit(2)
	}
	if mode := os.Getenv("VERIF_COLD_OUTAGE"); mode != "" && ColdStart != nil {
		// This process starts in a broken environment: the first call of every API function happens while crypto/rand.Reader
		// fails (mode 1), while the SHA-256 registered with package crypto is broken - its constructor panics - (mode 2), or
		// both (mode 3); panics are recovered and nothing is demanded of these calls. Then the other fault is tried, the
		// environment is repaired (a program can register the real SHA-256 again) and the checks run: a package that
		// initialises something lazily on first use must not be poisoned for the rest of the process.
		saved := rand.Reader
		breakEntropy := func() { rand.Reader = outageReader{} }
		breakHash := func() {
			crypto.RegisterHash(crypto.SHA256, func() hash.Hash { panic("scripted: broken SHA-256 registration") })
		}
		repair := func() {
			rand.Reader = saved
			crypto.RegisterHash(crypto.SHA256, sha256.New)
		}
		switch mode {
		case "1":
			breakEntropy()
			ColdStart()
			breakHash()
		case "2":
			breakHash()
			ColdStart()
			breakEntropy()
		default:
			breakEntropy()
			breakHash()
		}
		ColdStart()
		repair()
		fmt.Println("VERIF-COLD-OUTAGE done, mode", mode)
	}
	if os.Getenv("VERIF_FOREIGN_HASH") == "1" {
		// In this process the SHA-256 registered with package crypto is a correct implementation of ANOTHER Go type: a wrapper
		// that has only the hash.Hash methods (no encoding.BinaryMarshaler / BinaryUnmarshaler, no concrete *sha256.digest), like a
		// metering wrapper, a hardware back end or a third-party implementation.
		crypto.RegisterHash(crypto.SHA256, func() hash.Hash { return onlyHash{sha256.New()} })
		fmt.Println("VERIF-FOREIGN-HASH installed")
	}
	if os.Getenv("VERIF_HOSTILE_ENTROPY") == "1" {
		// The ambient entropy is an input nobody lists: in this process crypto/rand.Reader delivers, for ever, 32-byte blocks
		// equal to p, n, 0, 2^256-1, p-1, n-1, p+1, n+1, 2^255, 1, ... Functions that are specified as deterministic must not
		// care (an implementation may blind its arithmetic with random masks; the result is still the specified one).
		rand.Reader = &hostileEntropy{}
		fmt.Println("VERIF-HOSTILE-ENTROPY installed")
	}
	os.Exit(m.Run())
}

type onlyHash struct{ hash.Hash }

type hostileEntropy struct {
	mu  sync.Mutex
	buf []byte
	pos int
}

func (h *hostileEntropy) Read(p []byte) (int, error) {
	h.mu.Lock()
	defer h.mu.Unlock()
	if h.buf == nil {
		one := big.NewInt(1)
		two256 := new(big.Int).Lsh(one, 256)
		for _, v := range []*big.Int{ref.P, ref.N, new(big.Int), new(big.Int).Sub(two256, one), new(big.Int).Sub(ref.P, one), new(big.Int).Sub(ref.N, one),
			new(big.Int).Add(ref.P, one), new(big.Int).Add(ref.N, one), new(big.Int).Lsh(one, 255), one, new(big.Int).Lsh(ref.P, 0), new(big.Int).Sub(two256, ref.P),
			new(big.Int).Sub(two256, ref.N), new(big.Int).Rsh(ref.P, 1), ref.P, ref.P, ref.N, ref.N} {
			h.buf = append(h.buf, ref.Bytes32(v)...)
		}
	}
	for i := range p {
		p[i] = h.buf[h.pos]
		h.pos = (h.pos + 1) % len(h.buf)
	}
	return len(p), nil
}
