package gen

import (
	"hash/adler32"
	"hash/crc32"
	"hash/crc64"
	"hash/fnv"
	"math/big"
)

// Checksum twins: different byte strings of the same length that a *standard checksum* cannot tell apart. A library that
// identifies a request, an encoding or an operand by a checksum of its bytes (a memo table keyed by CRC-32, an "already seen"
// filter keyed by Adler-32 / FNV-32) answers the second of two twins with what belongs to the first. Nothing about the
// fingerprint function is read from the tree: the twins collide under every function of a fixed family at once -
//   * the CRC family (CRC-32 IEEE, Castagnoli, Koopman; CRC-64 ECMA, ISO) and the xor folds over bytes, 32-bit and 64-bit words
//     are affine over GF(2): a difference in the common kernel of their linear parts (Gaussian elimination over the bits of a
//     window) collides under all of them simultaneously;
//   * additive checksums (byte sum, Adler-32, Fletcher): +1, -2, +1 on three neighbouring bytes keeps the sum and the
//     position-weighted sum;
//   * FNV-1 / FNV-1a with 32 bits: a birthday pair of 8-byte tails behind a common prefix (about 2^17 candidates).
// A well-mixing 64-bit or keyed hash (maphash, SipHash, FNV-64, SHA) stays out of reach; see DESIGN.md section 6.

type linFn struct {
	bits int
	f    func([]byte) uint64
}

func xorFold(w int) func([]byte) uint64 {
	return func(b []byte) uint64 {
		var acc uint64
		for i, c := range b {
			acc ^= uint64(c) << (8 * uint(i%w))
		}
		return acc
	}
}

var (
	tabC   = crc32.MakeTable(crc32.Castagnoli)
	tabK   = crc32.MakeTable(crc32.Koopman)
	tabE   = crc64.MakeTable(crc64.ECMA)
	tabI   = crc64.MakeTable(crc64.ISO)
	linFns = []linFn{
		{32, func(b []byte) uint64 { return uint64(crc32.ChecksumIEEE(b)) }},
		{32, func(b []byte) uint64 { return uint64(crc32.Checksum(b, tabC)) }},
		{64, func(b []byte) uint64 { return crc64.Checksum(b, tabE) }},
		{64, func(b []byte) uint64 { return crc64.Checksum(b, tabI) }},
		{32, func(b []byte) uint64 { return uint64(crc32.Checksum(b, tabK)) }},
		{8, xorFold(1)},
		{32, xorFold(4)},
		{64, xorFold(8)},
	}
)

// CRCKernel returns up to max non-zero differences d (len(d) = n, non-zero bytes only inside [lo, hi)) such that a and a^d have
// the same value under as many functions of the affine family as the window allows (the first return value says how many of
// linFns, in their order, are satisfied: at least the two CRC-32s and CRC-64/ECMA for windows of 17 bytes and more).
func CRCKernel(n, lo, hi, max int) (int, [][]byte) {
	if lo < 0 {
		lo = 0
	}
	if hi > n {
		hi = n
	}
	if hi-lo > 64 {
		lo = hi - 64
	}
	nbits := (hi - lo) * 8
	if nbits < 40 {
		return 0, nil
	}
	zero := make([]byte, n)
	for use := len(linFns); use >= 1; use-- {
		width := 0
		for _, f := range linFns[:use] {
			width += f.bits
		}
		if width >= nbits {
			continue
		}
		base := make([]uint64, use)
		for k, f := range linFns[:use] {
			base[k] = f.f(zero)
		}
		// rows: one per window bit; image = concatenated linear parts; tag = which window bits were combined
		type row struct{ img, tag *big.Int }
		rows := make([]row, nbits)
		buf := make([]byte, n)
		for j := 0; j < nbits; j++ {
			buf[lo+j/8] = 1 << uint(j%8)
			img := new(big.Int)
			for k, f := range linFns[:use] {
				img.Lsh(img, uint(f.bits))
				img.Or(img, new(big.Int).SetUint64(f.f(buf)^base[k]))
			}
			buf[lo+j/8] = 0
			rows[j] = row{img, new(big.Int).SetBit(new(big.Int), j, 1)}
		}
		var kernel []*big.Int
		pivots := map[int]row{}
		for _, r := range rows {
			for r.img.Sign() != 0 {
				top := r.img.BitLen() - 1
				p, ok := pivots[top]
				if !ok {
					pivots[top] = r
					break
				}
				r = row{new(big.Int).Xor(r.img, p.img), new(big.Int).Xor(r.tag, p.tag)}
			}
			if r.img.Sign() == 0 {
				kernel = append(kernel, r.tag)
			}
		}
		if len(kernel) == 0 {
			continue
		}
		var out [][]byte
		emit := func(tag *big.Int) {
			d := make([]byte, n)
			for j := 0; j < nbits; j++ {
				if tag.Bit(j) == 1 {
					d[lo+j/8] |= 1 << uint(j%8)
				}
			}
			out = append(out, d)
		}
		for i := 0; i < len(kernel) && len(out) < max; i++ {
			emit(kernel[i])
		}
		for i := 0; i < len(kernel) && len(out) < max; i++ {
			for j := i + 1; j < len(kernel) && len(out) < max; j++ {
				emit(new(big.Int).Xor(kernel[i], kernel[j]))
			}
		}
		return use, out
	}
	return 0, nil
}

// CRCTwins returns up to max twins of a under the affine family, differing from a inside the window [lo, hi) only.
func CRCTwins(a []byte, lo, hi, max int) [][]byte {
	_, ds := CRCKernel(len(a), lo, hi, max)
	out := make([][]byte, 0, len(ds))
	for _, d := range ds {
		b := append([]byte{}, a...)
		for i := range b {
			b[i] ^= d[i]
		}
		out = append(out, b)
	}
	return out
}

// AdditiveTwins returns the twins of a under byte sum / Adler-32 / Fletcher: +1, -2, +1 (or -1, +2, -1) on bytes i, i+1, i+2.
func AdditiveTwins(a []byte, max int) [][]byte {
	var out [][]byte
	for i := len(a) - 3; i >= 0 && len(out) < max; i-- {
		b := append([]byte{}, a...)
		switch {
		case a[i] < 255 && a[i+1] >= 2 && a[i+2] < 255:
			b[i], b[i+1], b[i+2] = a[i]+1, a[i+1]-2, a[i+2]+1
		case a[i] > 0 && a[i+1] <= 253 && a[i+2] > 0:
			b[i], b[i+1], b[i+2] = a[i]-1, a[i+1]+2, a[i+2]-1
		default:
			continue
		}
		out = append(out, b)
	}
	return out
}

// FNV32Pair returns two different strings prefix||tail1, prefix||tail2 (8-byte tails) with the same FNV-1a (variant 0) or
// FNV-1 (variant 1) 32-bit hash. Deterministic: the tails are enumerated from salt.
func FNV32Pair(prefix []byte, salt uint64, variant int) ([]byte, []byte) {
	const prime, offset = 16777619, 2166136261
	step := func(h uint32, c byte) uint32 {
		if variant == 1 {
			return (h * prime) ^ uint32(c)
		}
		return (h ^ uint32(c)) * prime
	}
	state := uint32(offset)
	for _, c := range prefix {
		state = step(state, c)
	}
	seen := make(map[uint32]uint64, 1<<17)
	for k := uint64(0); k < 1<<22; k++ {
		v := mix64tw(salt + k)
		h := state
		for i := 0; i < 8; i++ {
			h = step(h, byte(v>>(8*uint(i))))
		}
		if prev, ok := seen[h]; ok && prev != v {
			a, b := append([]byte{}, prefix...), append([]byte{}, prefix...)
			for i := 0; i < 8; i++ {
				a, b = append(a, byte(prev>>(8*uint(i)))), append(b, byte(v>>(8*uint(i))))
			}
			return a, b
		}
		seen[h] = v
	}
	return nil, nil
}

func mix64tw(x uint64) uint64 {
	x += 0x9e3779b97f4a7c15
	x = (x ^ (x >> 30)) * 0xbf58476d1ce4e5b9
	x = (x ^ (x >> 27)) * 0x94d049bb133111eb
	return x ^ (x >> 31)
}

// TwinsAgree is the self-test of this file: it reports the first function of the family under which a and b differ ("" if none
// among the first `use` affine functions; kind "additive" checks Adler-32 and the byte sum, "fnv32a"/"fnv32" the FNV hashes).
func TwinsAgree(a, b []byte, kind string, use int) string {
	if len(a) != len(b) || string(a) == string(b) {
		return "not a twin (same string or other length)"
	}
	switch kind {
	case "additive":
		if adler32.Checksum(a) != adler32.Checksum(b) {
			return "adler32"
		}
	case "fnv32a":
		x, y := fnv.New32a(), fnv.New32a()
		x.Write(a)
		y.Write(b)
		if x.Sum32() != y.Sum32() {
			return "fnv32a"
		}
	case "fnv32":
		x, y := fnv.New32(), fnv.New32()
		x.Write(a)
		y.Write(b)
		if x.Sum32() != y.Sum32() {
			return "fnv32"
		}
	default:
		names := []string{"crc32-ieee", "crc32c", "crc64-ecma", "crc64-iso", "crc32-koopman", "xor8", "xor32", "xor64"}
		for k := 0; k < use && k < len(linFns); k++ {
			if linFns[k].f(a) != linFns[k].f(b) {
				return names[k]
			}
		}
	}
	return ""
}
