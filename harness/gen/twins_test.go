package gen

import (
	"bytes"
	"testing"
)

func TestChecksumTwins(t *testing.T) {
	for _, n := range []int{32, 33, 48, 65, 100, 256, 300, 1000} {
		a := make([]byte, n)
		for i := range a {
			a[i] = byte(mix64tw(uint64(i*n + 1)))
		}
		use, ds := CRCKernel(n, 0, n, 8)
		if use < 3 || len(ds) == 0 {
			t.Fatalf("n=%d: use=%d kernel=%d", n, use, len(ds))
		}
		for _, b := range CRCTwins(a, 0, n, 8) {
			if w := TwinsAgree(a, b, "crc", use); w != "" {
				t.Fatalf("n=%d: twins differ under %s", n, w)
			}
		}
		if n >= 48 {
			lo := 1
			for _, b := range CRCTwins(a, lo, lo+40, 4) {
				if w := TwinsAgree(a, b, "crc", 3); w != "" || !bytes.Equal(a[lo+40:], b[lo+40:]) || a[0] != b[0] {
					t.Fatalf("n=%d window: %s", n, w)
				}
			}
		}
		tw := AdditiveTwins(a, 4)
		if len(tw) == 0 {
			t.Fatalf("n=%d: no additive twin", n)
		}
		for _, b := range tw {
			if w := TwinsAgree(a, b, "additive", 0); w != "" {
				t.Fatalf("n=%d additive: %s", n, w)
			}
		}
		for v, kind := range []string{"fnv32a", "fnv32"} {
			x, y := FNV32Pair(a[:n-8], uint64(n), v)
			if x == nil {
				t.Fatalf("n=%d: no %s pair", n, kind)
			}
			if w := TwinsAgree(x, y, kind, 0); w != "" {
				t.Fatalf("n=%d %s: %s", n, kind, w)
			}
		}
	}
}
