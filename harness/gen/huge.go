package gen

import (
	"strconv"
	"syscall"
)

// Huge returns a slice of n bytes (n may exceed 2^32) that starts with prefix and is zero otherwise, backed by an anonymous
// mapping that is never touched beyond its first page: it costs address space, not memory. It returns nil where such a slice
// cannot exist (32-bit platforms) or the mapping fails. release unmaps it.
func Huge(n int64, prefix []byte) (b []byte, release func()) {
	if strconv.IntSize < 64 || n <= 0 {
		return nil, func() {}
	}
	const mapNoReserve = 0x4000
	m, err := syscall.Mmap(-1, 0, int(n), syscall.PROT_READ|syscall.PROT_WRITE, syscall.MAP_ANON|syscall.MAP_PRIVATE|mapNoReserve)
	if err != nil {
		return nil, func() {}
	}
	copy(m, prefix)
	return m, func() { _ = syscall.Munmap(m) }
}

// ReadOnly returns a copy of data that lives in memory mapped READ-ONLY (key material in a protected mapping, a zero-copy view
// of a string constant, a file mapping): any write through the slice - even one that is undone before the call returns - faults.
// atEnd places the data so that it ends exactly at the end of the mapping (the page behind it is not mapped: reads beyond the
// slice fault too). It returns nil when the mapping cannot be made. release unmaps it.
func ReadOnly(data []byte, atEnd bool) (b []byte, release func()) {
	page := syscall.Getpagesize()
	size := (len(data)/page + 1) * page
	m, err := syscall.Mmap(-1, 0, size, syscall.PROT_READ|syscall.PROT_WRITE, syscall.MAP_ANON|syscall.MAP_PRIVATE)
	if err != nil {
		return nil, func() {}
	}
	off := 0
	if atEnd {
		off = size - len(data)
	}
	for i := range m {
		m[i] = Canary(i)
	}
	copy(m[off:], data)
	if err := syscall.Mprotect(m, syscall.PROT_READ); err != nil {
		_ = syscall.Munmap(m)
		return nil, func() {}
	}
	return m[off : off+len(data) : off+len(data)], func() { _ = syscall.Munmap(m) }
}
