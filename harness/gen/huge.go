package gen

import (
	"strconv"
	"syscall"
)

// Huge returns a slice of n bytes (n may exceed 2^32) that starts with prefix and is zero otherwise, backed by an anonymous
// mapping that is never touched beyond its first page: it costs address space, not memory. It returns nil where such a slice
// cannot exist (32-bit platforms) or the mapping fails. release unmaps it.
func Huge(n int64, prefix []byte) (b []byte, release func()) {
	if strconv.IntSize < 64 || n <= 0 {
		return nil, func() {}
	}
	const mapNoReserve = 0x4000
	m, err := syscall.Mmap(-1, 0, int(n), syscall.PROT_READ|syscall.PROT_WRITE, syscall.MAP_ANON|syscall.MAP_PRIVATE|mapNoReserve)
	if err != nil {
		return nil, func() {}
	}
	copy(m, prefix)
	return m, func() { _ = syscall.Munmap(m) }
}
