package trace

import (
	"math/big"
	"os"
	"runtime"
	"testing"

	"github.com/bytemare/secp256k1"
	"github.com/bytemare/secp256k1/internal/veriftrace"
	"github.com/bytemare/secp256k1/verifharness/gen"
	"github.com/bytemare/secp256k1/verifharness/ref"
)

// C19/long-run: the number of multiplications a process has made is not the scalar's business either. N multiplications of one
// point are traced in ONE process (2^16 + 2^8 in the first shard of a tier, a few hundred elsewhere), with scalars that rotate
// through sparse, dense, short and boundary values; for every call only the number of function entries and a running hash of
// their sequence are kept, and every call must show the schedule of the first one. This reaches what happens on every k-th
// call of a process (sampled self-checks, re-randomisation, periodic table rebuilds) when that work depends on the scalar.

type caseC19long struct {
	N int `json:"n"`
}

var c19long = gen.Register(&gen.Check[caseC19long]{
	Name: "C19/long-run",
	Fixed: func() []caseC19long {
		n := 300
		if os.Getenv("VERIF_SHARD") == "0" && runtime.GOARCH == "amd64" && os.Getenv("VERIF_RACE_BUILD") != "1" && os.Getenv("VERIF_ALT_BUILD") != "1" {
			n = 1<<16 + 1<<8
			if os.Getenv("VERIF_TIER") == "thorough" {
				n = 1<<17 + 1<<8
			}
		}
		return []caseC19long{{N: n}}
	},
	Run: func(c caseC19long, o *gen.Obs) error {
		o.ClassIf(c.N > 1<<16, "traced-calls>2^16")
		o.ClassIf(c.N > 1<<17, "traced-calls>2^17")
		o.NonTrivial()
		nm1 := new(big.Int).Sub(ref.N, big.NewInt(1))
		var scalars []*secp256k1.Scalar
		for _, v := range []*big.Int{big.NewInt(2), nm1, big.NewInt(3), new(big.Int).Lsh(big.NewInt(1), 255), new(big.Int).Sub(ref.N, big.NewInt(2)),
			new(big.Int).Lsh(big.NewInt(1), 128), ref.HashToScalar([]byte("c19-long"), []byte("VERIF-C19")), new(big.Int).Rsh(ref.N, 1), big.NewInt(0)} {
			scalars = append(scalars, mkScalar(v))
		}
		p := secp256k1.Base().Double().Add(secp256k1.Base()) // 3G, Z != 1
		r := secp256k1.NewElement()
		var count int
		var hash uint64
		hook := func(id uint32) {
			count++
			hash = (hash ^ uint64(id)) * 1099511628211
		}
		var count0 int
		var hash0 uint64
		for i := 0; i < c.N; i++ {
			k := scalars[i%len(scalars)]
			r.Set(p)
			count, hash = 0, 14695981039346656037
			veriftrace.Hook = hook
			r.Multiply(k)
			veriftrace.Hook = nil
			if i == 0 {
				count0, hash0 = count, hash
				if count0 == 0 {
					return &gen.Inconclusive{Msg: "the trace hook recorded nothing"}
				}
				continue
			}
			if count != count0 || hash != hash0 {
				return gen.Fail("Multiply/trace-depends-on-call-number", "traced multiplication number %d of this process (scalar %x) executes %d field-level function entries (sequence hash %x), the first one (scalar 2) %d (%x)", i+1, k.Encode(), count, hash, count0, hash0)
			}
		}
		return nil
	},
})

func TestC19LongRun(t *testing.T) { c19long.Execute(t) }
