package wb

import (
	"math/big"
	"testing"

	"github.com/bytemare/secp256k1"
	"github.com/bytemare/secp256k1/verifharness/gen"
	"github.com/bytemare/secp256k1/verifharness/pt"
	"github.com/bytemare/secp256k1/verifharness/ref"
	"pgregory.net/rapid"
)

// C01: Multiply sets P to exactly [k]P for every point representation and every scalar.

type caseC01 struct {
	P    pt.Spec `json:"p"`
	K    string  `json:"k"` // canonical scalar, hex
	NilK bool    `json:"nil_k,omitempty"`
	Hist int     `json:"hist,omitempty"` // > 0: the scalar object was used before and got k through a mutator
	// Pre: a multiplication of a RELATED point (same y / same x / same point, Z = 1) by PreK runs right before the one under
	// test: calls are independent, whatever an earlier call on a look-alike operand left behind must not matter.
	Pre  string `json:"pre,omitempty"` // "", endo, endo2, neg, same, double
	PreK string `json:"pre_k,omitempty"`
}

var preRel = []string{"endo", "endo2", "neg", "same", "double"}

func related(rel string, p ref.Point) ref.Point {
	switch rel {
	case "endo":
		return ref.Endo(p)
	case "endo2":
		return ref.Endo(ref.Endo(p))
	case "neg":
		return ref.Neg(p)
	case "double":
		return ref.Double(p)
	}
	return p
}

func kClasses(o *gen.Obs, k *big.Int) {
	o.ClassIf(k.Sign() == 0, "k=0")
	o.ClassIf(k.Cmp(bigOne) == 0, "k=1")
	o.ClassIf(k.Bit(255) == 1, "k>=2^255")
	o.ClassIf(k.Cmp(new(big.Int).Sub(ref.N, bigOne)) == 0, "k=n-1")
	o.ClassIf(k.BitLen() <= 64 && k.Sign() > 0, "k<2^64")
}

var nm1 = new(big.Int).Sub(ref.N, bigOne)

var c01 = gen.Register(&gen.Check[caseC01]{
	Name: "C01/reference",
	Gen: func(t *rapid.T) caseC01 {
		c := caseC01{P: pt.SpecGen(2, false).Draw(t, "p"), K: gen.H(gen.IntBoth(ref.N).Draw(t, "k"))}
		c.NilK = rapid.IntRange(0, 39).Draw(t, "nil") == 0
		if gen.Chance(t, "hist", 1, 3) {
			c.Hist = 1 + gen.Pick(t, "installer", 6)
		}
		if gen.Chance(t, "pre", 1, 4) {
			c.Pre = preRel[gen.Pick(t, "preRel", len(preRel))]
			c.PreK = c.K
			if rapid.Bool().Draw(t, "otherK") {
				c.PreK = gen.H(gen.IntBoth(ref.N).Draw(t, "preK"))
			}
		}
		return c
	},
	Fixed: func() []caseC01 {
		g := pt.Spec{Base: pt.Base{Kind: "g"}}
		gz := pt.Spec{Base: pt.Base{Kind: "kg", K: 5}, Steps: []pt.Step{{Op: "dblsub"}}}
		id := idSpec(pt.Step{Op: "id:p-p", J: 1})
		var out []caseC01
		for _, k := range []*big.Int{big.NewInt(0), big.NewInt(1), big.NewInt(2), big.NewInt(3), nm1, new(big.Int).Sub(ref.N, big.NewInt(2)),
			new(big.Int).Lsh(bigOne, 255), new(big.Int).Add(new(big.Int).Lsh(bigOne, 255), bigOne), new(big.Int).Lsh(bigOne, 254),
			new(big.Int).Rsh(ref.N, 1), new(big.Int).Add(new(big.Int).Rsh(ref.N, 1), bigOne)} {
			for _, p := range []pt.Spec{g, gz, id} {
				out = append(out, caseC01{P: p, K: gen.H(k)})
			}
		}
		for i, v := range gen.DictFixed(ref.N, 2*gen.DictStride()) {
			out = append(out, caseC01{P: []pt.Spec{g, gz}[i%2], K: gen.H(v)})
		}
		for i, v := range gen.RecodingDense(ref.N) { // the longest, densest signed-digit recodings of every window width
			if i%gen.DictStride() == 0 {
				out = append(out, caseC01{P: []pt.Spec{g, gz}[i%2], K: gen.H(v)})
			}
		}
		out = append(out, caseC01{P: g, K: "00", NilK: true}, caseC01{P: gz, K: "00", NilK: true}, caseC01{P: id, K: "00", NilK: true})
		return out
	},
	Required: []string{"k=0", "k=1", "k>=2^255", "k=n-1", "p:identity", "nil-scalar", "used-scalar-object", "after-related-multiply"},
	Run: func(c caseC01, o *gen.Obs) error {
		hostileCaller()
		p, err := pt.Build(c.P)
		if err != nil {
			o.Class("skipped:builder-error")
			return nil
		}
		if p.RawKnown && !p.RawValid {
			o.Class("skipped:operand-invalid")
			return nil
		}
		k := gen.B(c.K)
		classify(o, "p", p)
		o.ClassIf(pt.Calibrated(), "white-box")
		mp := p.Model
		if c.NilK {
			o.Class("nil-scalar")
			o.NonTrivial()
			if got := p.E.Multiply(nil); got != p.E {
				return gen.Fail("Multiply/return", "did not return the receiver")
			}
			return checkElement("Multiply/nil", p.E, ref.Infinity())
		}
		kClasses(o, k)
		o.NonTrivialIf(k.Cmp(bigOne) > 0 && !mp.Inf)
		s := mkScalarHist(k, c.Hist)
		o.ClassIf(c.Hist > 0, "used-scalar-object")
		s0 := s.S
		want := ref.Mul(k, mp)
		if c.Pre != "" && !mp.Inf {
			o.Class("after-related-multiply")
			if r := related(c.Pre, mp); !r.Inf {
				re := secp256k1.NewElement()
				if err := re.DecodeCoordinates([32]byte(ref.Bytes32(r.X)), [32]byte(ref.Bytes32(r.Y))); err != nil {
					return &gen.Inconclusive{Msg: "cannot build the related point: " + err.Error()}
				}
				re.Multiply(mkScalar(gen.B(c.PreK)))
			}
		}
		if got := p.E.Multiply(s); got != p.E {
			return gen.Fail("Multiply/return", "did not return the receiver")
		}
		if e := checkElement("Multiply", p.E, want); e != nil {
			return gen.Fail("Multiply", "[%x] %s (coordinates %x:%x:%x): %v", k, mp, p.X, p.Y, p.Z, e)
		}
		if s.S != s0 {
			return gen.Fail("Multiply/mutates-scalar", "the scalar changed")
		}
		return nil
	},
})

func TestC01Reference(t *testing.T) { c01.Execute(t) }

// --- literal k-fold sums for small k ------------------------------------------------------------------

type caseC01small struct {
	P pt.Spec `json:"p"`
	K int     `json:"k"`
}

var c01small = gen.Register(&gen.Check[caseC01small]{
	Name:   "C01/kfold",
	Weight: 1,
	Gen: func(t *rapid.T) caseC01small {
		return caseC01small{P: pt.SpecGen(2, false).Draw(t, "p"), K: rapid.IntRange(0, 64).Draw(t, "k")}
	},
	Run: func(c caseC01small, o *gen.Obs) error {
		p, err := pt.Build(c.P)
		if err != nil || (p.RawKnown && !p.RawValid) {
			o.Class("skipped:builder")
			return nil
		}
		classify(o, "p", p)
		o.NonTrivialIf(c.K > 1 && !p.Model.Inf)
		// k-fold sum in the model (textbook addition) ...
		sum := ref.Infinity()
		for i := 0; i < c.K; i++ {
			sum = ref.Add(sum, p.Model)
		}
		// ... and with the implementation's own Add
		acc := secp256k1.NewElement()
		for i := 0; i < c.K; i++ {
			acc.Add(p.E)
		}
		prod := p.E.Copy().Multiply(mkScalar(big.NewInt(int64(c.K))))
		if e := checkElement("Multiply/kfold-model", prod, sum); e != nil {
			return gen.Fail("Multiply/kfold-model", "[%d] %s: %v", c.K, p.Model, e)
		}
		if prod.Equal(acc) != 1 {
			return gen.Fail("Multiply/kfold-add", "[%d] %s differs from the %d-fold Add", c.K, p.Model, c.K)
		}
		return nil
	},
})

func TestC01KFold(t *testing.T) { c01small.Execute(t) }

// --- metamorphic relations (no reference multiplication: cheap, so many more scalars) ------------------

type caseC01meta struct {
	P pt.Spec `json:"p"`
	A string  `json:"a"`
	B string  `json:"b"`
}

var c01meta = gen.Register(&gen.Check[caseC01meta]{
	Name:   "C01/metamorphic",
	Weight: 2,
	Gen: func(t *rapid.T) caseC01meta {
		return caseC01meta{P: pt.SpecGen(2, false).Draw(t, "p"), A: gen.H(gen.IntBoth(ref.N).Draw(t, "a")), B: gen.H(gen.IntBoth(ref.N).Draw(t, "b"))}
	},
	Required: []string{"k>=2^255"},
	Run: func(c caseC01meta, o *gen.Obs) error {
		p, err := pt.Build(c.P)
		if err != nil || (p.RawKnown && !p.RawValid) {
			o.Class("skipped:builder")
			return nil
		}
		a, b := gen.B(c.A), gen.B(c.B)
		classify(o, "p", p)
		kClasses(o, a)
		o.NonTrivialIf(!p.Model.Inf && a.Cmp(bigOne) > 0 && b.Cmp(bigOne) > 0)
		mul := func(k *big.Int) *secp256k1.Element { return p.E.Copy().Multiply(mkScalar(k)) }
		aP, bP := mul(a), mul(b)
		// [a]P + [n-a]P = O
		na := new(big.Int).Mod(new(big.Int).Neg(a), ref.N)
		if r := aP.Copy().Add(mul(na)); !r.IsIdentity() {
			return gen.Fail("Multiply/meta-negation", "[a]P + [n-a]P != O for a=%x P=%s", a, p.Model)
		}
		// [a]P + [b]P = [a+b]P
		ab := new(big.Int).Mod(new(big.Int).Add(a, b), ref.N)
		if aP.Copy().Add(bP).Equal(mul(ab)) != 1 {
			return gen.Fail("Multiply/meta-additive", "[a]P + [b]P != [a+b]P for a=%x b=%x P=%s", a, b, p.Model)
		}
		// [a]([b]P) = [ab]P
		prod := new(big.Int).Mod(new(big.Int).Mul(a, b), ref.N)
		if bP.Copy().Multiply(mkScalar(a)).Equal(mul(prod)) != 1 {
			return gen.Fail("Multiply/meta-multiplicative", "[a]([b]P) != [ab]P for a=%x b=%x P=%s", a, b, p.Model)
		}
		// [n-1]P = -P, checked against the model negation
		if e := checkElement("Multiply/meta-n-1", mul(nm1), ref.Neg(p.Model)); e != nil {
			return e
		}
		return nil
	},
})

func TestC01Metamorphic(t *testing.T) { c01meta.Execute(t) }
