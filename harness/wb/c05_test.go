package wb

import (
	"math/big"
	"testing"

	"github.com/bytemare/secp256k1"
	"github.com/bytemare/secp256k1/verifharness/gen"
	"github.com/bytemare/secp256k1/verifharness/pt"
	"github.com/bytemare/secp256k1/verifharness/ref"
	"pgregory.net/rapid"
)

// C05: Equal and IsIdentity are representation-independent.

type caseC05 struct {
	A    pt.Spec `json:"a"`
	B    pt.Spec `json:"b"`
	Rel  string  `json:"rel"`
	Self bool    `json:"self,omitempty"` // compare A with itself (same pointer)
	Aim  *Aim    `json:"aim,omitempty"`  // white-box: drive one cross product of the comparison to a chosen value
}

var c05rels = []string{"same", "neg", "endo", "endo-neg", "unrelated", "vs-identity", "id-id", "self", "line", "line", "raw-xy"}

// originLinePair returns two DISTINCT points P, Q on a common line through the origin (y = m x), starting the search at x0, and the
// factor lambda = x_P / x_Q: the representation (lambda x_Q : lambda y_Q : lambda) of Q then has the same raw X and the same raw Y
// as the affine P and differs in Z only (the curve equation is cubic in Z: X and Y do not determine the point).
func originLinePair(x0 *big.Int) (p, q ref.Point, lambda *big.Int, ok bool) {
	x := new(big.Int).Mod(x0, ref.P)
	for i := 0; i < 64; i++ {
		x.Add(x, bigOne).Mod(x, ref.P)
		even, _, on := ref.LiftX(x)
		if !on || x.Sign() == 0 {
			continue
		}
		m := ref.FMul(even.Y, ref.FInv0(even.X))
		a := ref.FSub(even.X, ref.FMul(m, m))
		b := ref.FNeg(ref.FMul(big.NewInt(7), ref.FInv0(even.X)))
		disc := ref.FSub(ref.FMul(a, a), ref.FMul(big.NewInt(4), b))
		if !ref.IsSquare(disc) {
			continue
		}
		x2 := ref.FMul(ref.FSub(ref.Sqrt(disc), a), ref.FInv0(big.NewInt(2)))
		if x2.Sign() == 0 || x2.Cmp(even.X) == 0 {
			continue
		}
		q = ref.Point{X: x2, Y: ref.FMul(m, x2)}
		if !q.Valid() {
			continue
		}
		return even, q, ref.FMul(even.X, ref.FInv0(x2)), true
	}
	return p, q, nil, false
}

func nonIdentityBase(t *rapid.T) pt.Base {
	b := pt.BaseGen().Draw(t, "base")
	if b.Kind == "id" {
		b = pt.Base{Kind: "g"}
	}
	return b
}

var c05 = gen.Register(&gen.Check[caseC05]{
	Name: "C05/equal",
	Gen: func(t *rapid.T) caseC05 {
		rel := rapid.SampledFrom(c05rels).Draw(t, "rel")
		c := caseC05{Rel: rel}
		a := nonIdentityBase(t)
		b := a
		switch rel {
		case "same":
		case "neg": // shares x
			b.Neg = !a.Neg
		case "endo": // shares y
			b.Endo = (a.Endo + rapid.IntRange(1, 2).Draw(t, "e")) % 3
		case "endo-neg":
			b.Endo = (a.Endo + 1) % 3
			b.Neg = !a.Neg
		case "line":
			// distinct points with y_Q - y_P = m (x_Q - x_P) for a small slope m: catches comparisons that combine the
			// x and y differences (sum, difference, small linear combinations) instead of testing both
			m := rapid.SampledFrom([]int{-1, 1, 2, -2, 3, -3}).Draw(t, "slope")
			a = pt.Base{Kind: "line-p", X: gen.H(gen.Int(ref.P).Draw(t, "x")), Odd: rapid.Bool().Draw(t, "odd"), K: m}
			b = a
			b.Kind = "line-q"
		case "raw-xy":
			if p, q, lambda, ok := originLinePair(gen.Int(ref.P).Draw(t, "x0")); ok {
				c.A = pt.Spec{Base: pt.Base{Kind: "liftx", X: gen.H(p.X), Odd: p.Y.Bit(0) == 1, Via: "limbs"}}
				c.B = pt.Spec{Base: pt.Base{Kind: "liftx", X: gen.H(q.X), Odd: q.Y.Bit(0) == 1, Via: "coords"}, Steps: []pt.Step{{Op: "rescale", A: gen.H(lambda)}}}
				if rapid.Bool().Draw(t, "swap") {
					c.A, c.B = c.B, c.A
				}
				return c
			}
			c.Rel = "same"
		case "unrelated":
			b = pt.BaseGen().Draw(t, "b")
		case "vs-identity":
			b = pt.Base{Kind: "id"}
		case "id-id":
			a, b = pt.Base{Kind: "id"}, pt.Base{Kind: "id"}
		case "self":
			c.Self = true
			if rapid.IntRange(0, 3).Draw(t, "selfid") == 0 {
				a = pt.Base{Kind: "id"}
			}
		}
		for _, bb := range []*pt.Base{&a, &b} {
			if bb.Kind == "id" {
				// the identity is set through Identity(), Decode(00) or Multiply(nil), possibly into a zero-value struct
				bb.Via = rapid.SampledFrom([]string{"coords", "comp", "mulnil"}).Draw(t, "idVia")
				bb.ZeroRecv = gen.Chance(t, "zeroRecvId", 1, 3)
			}
		}
		c.A = pt.WithSteps(t, a, 3, false)
		c.B = pt.WithSteps(t, b, 3, false)
		if rapid.Bool().Draw(t, "swap") {
			c.A, c.B = c.B, c.A
		}
		if !c.Self && gen.Chance(t, "aim", 1, 3) {
			c.Aim = AimGen(4).Draw(t, "aim")
		}
		return c
	},
	Fixed: func() []caseC05 {
		g := pt.Base{Kind: "g"}
		id := pt.Base{Kind: "id"}
		return []caseC05{
			{A: pt.Spec{Base: g}, B: pt.Spec{Base: pt.Base{Kind: "g", Neg: true}}, Rel: "neg"},
			{A: pt.Spec{Base: g}, B: pt.Spec{Base: pt.Base{Kind: "g", Endo: 1}}, Rel: "endo"},
			{A: pt.Spec{Base: g}, B: pt.Spec{Base: pt.Base{Kind: "g", Endo: 2}, Steps: []pt.Step{{Op: "dblsub"}}}, Rel: "endo"},
			{A: pt.Spec{Base: g}, B: pt.Spec{Base: id}, Rel: "vs-identity"},
			{A: pt.Spec{Base: pt.Base{Kind: "line-p", X: "01", K: -1}}, B: pt.Spec{Base: pt.Base{Kind: "line-q", X: "01", K: -1}}, Rel: "line"},
			{A: pt.Spec{Base: pt.Base{Kind: "line-p", X: "01", K: 1}, Steps: []pt.Step{{Op: "dblsub"}}}, B: pt.Spec{Base: pt.Base{Kind: "line-q", X: "01", K: 1}}, Rel: "line"},
			{A: pt.Spec{Base: id}, B: pt.Spec{Base: g, Steps: []pt.Step{{Op: "dblsub"}}}, Rel: "vs-identity"},
			{A: pt.Spec{Base: id}, B: pt.Spec{Base: id, Steps: []pt.Step{{Op: "id:p-p", J: 1}}}, Rel: "id-id"},
			{A: pt.Spec{Base: id, Steps: []pt.Step{{Op: "id:o-o"}}}, B: pt.Spec{Base: id, Steps: []pt.Step{{Op: "id:p-p", J: 2}}}, Rel: "id-id"},
			{A: pt.Spec{Base: id, Steps: []pt.Step{{Op: "id:wb", A: "02"}}}, B: pt.Spec{Base: id, Steps: []pt.Step{{Op: "id:wb", A: "03"}}}, Rel: "id-id"},
			{A: pt.Spec{Base: g, Steps: []pt.Step{{Op: "dblsub"}}}, B: pt.Spec{Base: g, Steps: []pt.Step{{Op: "addsub", J: 2}}}, Rel: "same"},
		}
	},
	Required: []string{"aimed-cross-product", "rel:line", "rel:same", "rel:neg", "rel:endo", "rel:vs-identity", "rel:id-id", "rel:unrelated", "equal", "unequal"},
	Run: func(c caseC05, o *gen.Obs) error {
		hostileCaller()
		a, err := pt.Build(c.A)
		if err != nil {
			o.Class("skipped:builder-error")
			return nil
		}
		b := a
		if !c.Self {
			if b, err = pt.Build(c.B); err != nil {
				o.Class("skipped:builder-error")
				return nil
			}
		}
		if skipIfInconsistent(o, a, b) {
			return nil
		}
		if c.Aim != nil && !c.Self && pt.Calibrated() && a.RawKnown && b.RawKnown {
			// the comparison multiplies X1*Z2, X2*Z1, Y1*Z2, Y2*Z1: re-scale b so that one of them equals tau
			cross := []*big.Int{ref.FMul(a.X, b.Z), ref.FMul(b.X, a.Z), ref.FMul(a.Y, b.Z), ref.FMul(b.Y, a.Z)}[c.Aim.I%4]
			if tau := c.Aim.value(); cross.Sign() != 0 && tau.Sign() != 0 {
				b = rescaleTo(b, ref.FMul(tau, ref.FInv0(cross)))
				o.Class("aimed-cross-product")
			}
		}
		o.Class("rel:" + c.Rel)
		classify(o, "a", a)
		classify(o, "b", b)
		want := a.Model.Equal(b.Model)
		o.ClassIf(want, "equal")
		o.ClassIf(!want, "unequal")
		shareX := !a.Model.Inf && !b.Model.Inf && a.Model.X.Cmp(b.Model.X) == 0 && !want
		shareY := !a.Model.Inf && !b.Model.Inf && a.Model.Y.Cmp(b.Model.Y) == 0 && !want
		o.ClassIf(!want && a.RawKnown && b.RawKnown && a.X.Cmp(b.X) == 0 && a.Y.Cmp(b.Y) == 0, "raw-x-and-y-equal")
		o.ClassIf(shareX, "share-x")
		o.ClassIf(shareY, "share-y")
		diffRep := a.RawKnown && (a.X.Cmp(b.X) != 0 || a.Y.Cmp(b.Y) != 0 || a.Z.Cmp(b.Z) != 0)
		o.NonTrivialIf(c.Rel == "line" || shareX || shareY || a.Model.Inf || b.Model.Inf || (want && diffRep) || len(c.A.Steps)+len(c.B.Steps) > 0)
		wi := 0
		if want {
			wi = 1
		}
		if got := a.E.Equal(b.E); got != wi {
			return gen.Fail("Equal", "Equal(%s [%x:%x:%x], %s [%x:%x:%x]) = %d, want %d", a.Model, a.X, a.Y, a.Z, b.Model, b.X, b.Y, b.Z, got, wi)
		}
		if got := b.E.Equal(a.E); got != wi {
			return gen.Fail("Equal/symmetry", "Equal(b, a) = %d but Equal(a, b) = %d for a=%s b=%s", got, wi, a.Model, b.Model)
		}
		if got := a.E.IsIdentity(); got != a.Model.Inf {
			return gen.Fail("IsIdentity", "IsIdentity = %v for %s [%x:%x:%x]", got, a.Model, a.X, a.Y, a.Z)
		}
		if got := b.E.IsIdentity(); got != b.Model.Inf {
			return gen.Fail("IsIdentity", "IsIdentity = %v for %s [%x:%x:%x]", got, b.Model, b.X, b.Y, b.Z)
		}
		// comparisons are read-only
		for _, x := range []*pt.Built{a, b} {
			after := pt.Inspect(x.E, x.Model)
			if after.RawKnown && (after.X.Cmp(x.X) != 0 || after.Y.Cmp(x.Y) != 0 || after.Z.Cmp(x.Z) != 0) {
				return gen.Fail("Equal/mutates", "a comparison changed an operand")
			}
		}
		// a nil argument (Equal dereferences it on the unchanged tree): whatever a nil-tolerant Equal takes nil to mean - nothing, or
		// the neutral element as in Add and Multiply - it cannot be equal to an element that is not the identity
		if !a.Model.Inf {
			var res int
			func() {
				defer func() { _ = recover() }()
				res = a.E.Equal(nil)
			}()
			if res == 1 {
				return gen.Fail("Equal/nil-equals-non-identity", "Equal(%s, nil) = 1", a.Model)
			}
		}
		// the operands are looked at (encoded, printed, marshalled) and compared again: same answers
		for _, x := range []*pt.Built{a, b} {
			if _, err := pt.ApplyStep(x.E, pt.Step{Op: "observe"}, x.Model); err != nil {
				return &gen.Inconclusive{Msg: err.Error()}
			}
		}
		if got := a.E.Equal(b.E); got != wi {
			return gen.Fail("Equal/after-observers", "Equal(%s, %s) = %d after both operands were encoded and printed, %d before", a.Model, b.Model, got, wi)
		}
		if got := a.E.IsIdentity(); got != a.Model.Inf {
			return gen.Fail("IsIdentity/after-observers", "IsIdentity = %v for %s after it was encoded and printed", got, a.Model)
		}
		if got := b.E.IsIdentity(); got != b.Model.Inf {
			return gen.Fail("IsIdentity/after-observers", "IsIdentity = %v for %s after it was encoded and printed", got, b.Model)
		}
		// predicates taken as method values (done := acc.IsIdentity; matches := target.Equal) BEFORE the object received its value
		// through the pointer: a method value of a pointer method is bound to the object, not to what it held at that moment
		h := secp256k1.Base()
		if want && !a.Model.Inf && a.Model.Equal(ref.G()) {
			h = secp256k1.NewElement()
		}
		isID, eq, eqRev := h.IsIdentity, h.Equal, b.E.Equal
		h.Set(a.E)
		if got := isID(); got != a.Model.Inf {
			return gen.Fail("IsIdentity/bound-early", "a method value IsIdentity taken before the object was Set to %s answers %v", a.Model, got)
		}
		if got := eq(b.E); got != wi {
			return gen.Fail("Equal/bound-early", "a method value Equal taken before the object was Set to %s answers %d against %s, want %d", a.Model, got, b.Model, wi)
		}
		if got := eqRev(h); got != wi {
			return gen.Fail("Equal/bound-early", "Equal(%s, object Set to %s) = %d, want %d", b.Model, a.Model, got, wi)
		}
		return nil
	},
})

func TestC05Equal(t *testing.T) {
	if !pt.Calibrated() {
		// API-only build (or a tree whose coordinates are not homogeneous projective): the white-box classes cannot occur
		c05.Required = without(c05.Required, "aimed-cross-product")
	}
	c05.Execute(t)
}
