package wb

import (
	"bytes"
	"encoding/gob"
	"encoding/hex"
	"math/big"
	"testing"

	"github.com/bytemare/secp256k1"
	"github.com/bytemare/secp256k1/verifharness/gen"
	"github.com/bytemare/secp256k1/verifharness/pt"
	"github.com/bytemare/secp256k1/verifharness/ref"
	"pgregory.net/rapid"
)

// C04: encodings are canonical SEC1, representation-independent, and round-trip through Decode.

type caseC04 struct {
	P      pt.Spec   `json:"p"`
	Steps2 []pt.Step `json:"steps2,omitempty"` // a second recipe for the same base
	// PrevX: right before the round trips, the compressed encodings 02||PrevX and 03||PrevX of a LOOK-ALIKE abscissa (one 64-bit
	// word of x replaced, the rest identical) are decoded into other objects: decoding calls are independent.
	PrevX string `json:"prev_x,omitempty"`
}

func idSpec(steps ...pt.Step) pt.Spec { return pt.Spec{Base: pt.Base{Kind: "id"}, Steps: steps} }

// twinAbscissa returns (hex) an abscissa x' != x of the curve whose 32-byte encoding is a checksum twin of x's; "" if there is none.
func twinAbscissa(x *big.Int, kind, skip int) string {
	xb := ref.Bytes32(x)
	tw := gen.CRCTwins(xb, 0, 32, 96)
	if kind == 1 {
		tw = gen.AdditiveTwins(xb, 30)
	}
	for _, b := range tw {
		v := new(big.Int).SetBytes(b)
		if _, _, ok := ref.LiftX(v); ok && v.Cmp(ref.P) < 0 && v.Cmp(x) != 0 {
			if skip--; skip < 0 {
				return hex.EncodeToString(b)
			}
		}
	}
	return ""
}

var c04 = gen.Register(&gen.Check[caseC04]{
	Name: "C04/encodings",
	Gen: func(t *rapid.T) caseC04 {
		p := pt.SpecGen(3, true).Draw(t, "p")
		c := caseC04{P: p}
		c.Steps2 = pt.WithSteps(t, p.Base, 2, false).Steps
		if m := p.Base.Point(); !m.Inf && gen.Chance(t, "prevTwin", 1, 6) {
			// a CHECKSUM TWIN of the abscissa (equal under the CRC family and the xor folds, or under the additive checksums:
			// gen/twins.go) that is an abscissa of the curve as well: a table of roots keyed by a checksum of the encoding
			// hands the second of two twins the ordinate of the first
			c.PrevX = twinAbscissa(m.X, gen.Pick(t, "twinKind", 2), gen.Pick(t, "twinSkip", 8))
		} else if !m.Inf && gen.Chance(t, "prev", 1, 4) {
			l := gen.ToLimbs(m.X)
			l[gen.Pick(t, "word", 4)] = gen.U64(t, "w")
			x := gen.FromLimbs(l)
			x.Mod(x, ref.P)
			for i := 0; i < 64; i++ {
				if _, _, ok := ref.LiftX(x); ok && x.Cmp(m.X) != 0 {
					c.PrevX = hex.EncodeToString(ref.Bytes32(x))
					break
				}
				x.Add(x, big.NewInt(1)).Mod(x, ref.P)
			}
		}
		return c
	},
	Fixed: func() []caseC04 {
		out := []caseC04{
			{P: idSpec()},
			{P: idSpec(pt.Step{Op: "id:p-p", J: 1})},
			{P: idSpec(pt.Step{Op: "id:o-o"})},
			{P: idSpec(pt.Step{Op: "id:mul0"})},
			{P: idSpec(pt.Step{Op: "id:wb", A: "07"})},
			{P: pt.Spec{Base: pt.Base{Kind: "g"}}},
			{P: pt.Spec{Base: pt.Base{Kind: "g", Neg: true}, Steps: []pt.Step{{Op: "dblsub"}}}},
			{P: pt.Spec{Base: pt.Base{Kind: "kg", K: 7}, Steps: []pt.Step{{Op: "rescale", A: "ffffffffffffffffffffffffffffffffffffffffffffffffffffffffefffffc2e"}}}},
		}
		// points whose x^3 + 7 (what the decoders compute and take the square root of), as Montgomery limbs, sits just below p, at
		// word boundaries, or at a dictionary value
		rhsTargets := []*big.Int{}
		for _, j := range []int64{1, 2, 3, 50, 977, 1000, 4096, 10000, 30000, 44000, 45001, 65535, 65537, 1 << 20, 1 << 31, 1<<32 + 976, 1<<32 + 978, 1 << 33} {
			rhsTargets = append(rhsTargets, new(big.Int).Sub(ref.P, big.NewInt(j)))
		}
		for _, k := range []uint{64, 128, 192, 255} {
			rhsTargets = append(rhsTargets, new(big.Int).Lsh(big.NewInt(1), k), new(big.Int).Sub(new(big.Int).Lsh(big.NewInt(1), k), big.NewInt(1)))
		}
		rhsTargets = append(rhsTargets, gen.DictFixed(ref.P, 8*gen.DictStride())...)
		for i, tgt := range rhsTargets {
			out = append(out, caseC04{P: pt.Spec{Base: pt.Base{Kind: "rhs", RHS: gen.H(tgt), Odd: i%2 == 1, Via: []string{"limbs", "comp", "limbs", "uncomp"}[i%4]}}})
		}
		// abscissae aimed at the constants found in the sources of the tree under test (the builder moves to the next x on the curve)
		for i, v := range gen.DictFixed(ref.P, 2*gen.DictStride()) {
			out = append(out, caseC04{P: pt.Spec{Base: pt.Base{Kind: "liftx", X: gen.H(v), Odd: i%2 == 1, Via: []string{"limbs", "comp", "limbs", "uncomp", "coords"}[i%5]}}})
		}
		return out
	},
	Required: []string{"p:identity", "odd-y", "even-y", "after-look-alike"},
	Run: func(c caseC04, o *gen.Obs) error {
		hostileCaller()
		b, err := pt.Build(c.P)
		if err != nil {
			o.Class("skipped:builder-error")
			return nil
		}
		if skipIfInconsistent(o, b) {
			return nil
		}
		classify(o, "p", b)
		m := b.Model
		o.ClassIf(!m.Inf && m.Y.Bit(0) == 1, "odd-y")
		o.ClassIf(!m.Inf && m.Y.Bit(0) == 0, "even-y")
		o.ClassIf(pt.Calibrated(), "white-box")
		o.NonTrivialIf(m.Inf || (b.RawKnown && !b.ZIsOne) || m.Y.Bit(0) == 1 || len(c.P.Steps) > 0)
		e := b.E
		want := ref.Compress(m)

		enc := e.Encode()
		if !bytes.Equal(enc, want) {
			return gen.Fail("Encode", "Encode = %x, want %x (coordinates %x:%x:%x)", enc, want, b.X, b.Y, b.Z)
		}
		if x := e.XCoordinate(); !bytes.Equal(x, want[1:]) {
			return gen.Fail("XCoordinate", "XCoordinate = %x, want %x", x, want[1:])
		}
		if h := e.Hex(); h != hex.EncodeToString(want) {
			return gen.Fail("Hex", "Hex = %s, want %x", h, want)
		}
		if mb, merr := e.MarshalBinary(); merr != nil || !bytes.Equal(mb, want) {
			return gen.Fail("MarshalBinary", "MarshalBinary = %x, %v; want %x", mb, merr, want)
		}
		unc := e.EncodeUncompressed()
		if !m.Inf {
			if wu := ref.Uncompressed(m); !bytes.Equal(unc, wu) {
				return gen.Fail("EncodeUncompressed", "EncodeUncompressed = %x, want %x", unc, wu)
			}
		}
		// encoders are read-only
		if after := pt.Inspect(e, m); after.RawKnown && (after.X.Cmp(b.X) != 0 || after.Y.Cmp(b.Y) != 0 || after.Z.Cmp(b.Z) != 0) {
			return gen.Fail("Encode/mutates", "encoding changed the raw coordinates")
		}
		if c.PrevX != "" {
			o.Class("after-look-alike")
			px := gen.HexBytes(c.PrevX)
			o.ClassIf(!m.Inf && gen.TwinsAgree(ref.Bytes32(m.X), px, "crc", 3) == "", "after-checksum-twin:crc")
			o.ClassIf(!m.Inf && gen.TwinsAgree(ref.Bytes32(m.X), px, "additive", 0) == "", "after-checksum-twin:additive")
			_ = secp256k1.NewElement().Decode(append([]byte{2}, px...))
			_ = secp256k1.NewElement().Decode(append([]byte{3}, px...))
		}
		// round trips, onto a receiver holding something else
		for _, rt := range []struct {
			name string
			data []byte
		}{{"Decode(Encode)", enc}, {"Decode(EncodeUncompressed)", unc}} {
			r := secp256k1.Base().Double()
			if derr := r.Decode(rt.data); derr != nil {
				cls := rt.name
				if m.Inf {
					cls += "/identity"
				}
				return gen.Fail(cls, "%s: own encoding %x of %s rejected: %v", rt.name, rt.data, m, derr)
			}
			if r.Equal(e) != 1 || e.Equal(r) != 1 {
				return gen.Fail(rt.name+"/not-equal", "%s gives an element not Equal to the original %s", rt.name, m)
			}
			if !bytes.Equal(r.Encode(), want) {
				return gen.Fail(rt.name+"/value", "%s re-encodes to %x, want %x", rt.name, r.Encode(), want)
			}
			// the bytes travelled through a buffer the caller re-uses afterwards: the decoded element keeps its value
			buf := append([]byte(nil), rt.data...)
			r2 := secp256k1.Base().Double()
			if derr := r2.Decode(buf); derr == nil {
				for i := range buf {
					buf[i] = ^buf[i]
				}
				if got := r2.Encode(); !bytes.Equal(got, want) || r2.Equal(e) != 1 {
					return gen.Fail(rt.name+"/keeps-input-slice", "%s: after the caller overwrote the buffer it had decoded from, the element encodes to %x, want %x", rt.name, got, want)
				}
			}
		}
		// the generic serialisers that pick up encoding.BinaryMarshaler / BinaryUnmarshaler (encoding/gob; a value inside another
		// struct) must round-trip as well
		if m.Inf || m.X.Uint64()%4 == 0 {
			type envelope struct {
				Tag string
				P   *secp256k1.Element
				Q   secp256k1.Element // by value
			}
			var buf bytes.Buffer
			in := envelope{Tag: "t", P: e}
			in.Q.Set(e)
			if gerr := gob.NewEncoder(&buf).Encode(&in); gerr == nil {
				out := envelope{P: secp256k1.Base().Double()}
				out.Q.Base()
				if gerr = gob.NewDecoder(&buf).Decode(&out); gerr != nil {
					return gen.Fail("roundtrip/gob", "gob cannot decode what it encoded for %s: %v", m, gerr)
				}
				if out.P == nil || out.P.Equal(e) != 1 || out.Q.Equal(e) != 1 || !bytes.Equal(out.P.Encode(), want) || !bytes.Equal(out.Q.Encode(), want) {
					return gen.Fail("roundtrip/gob", "gob round trip of %s gives %x / %x, want %x", m, out.P.Encode(), out.Q.Encode(), want)
				}
				o.Class("gob-roundtrip")
			}
		}
		// decode into a receiver that already holds a point in this representation an encoding that coincides with the
		// receiver's *raw* coordinates (a point whose affine x is the receiver's projective X): the receiver's hidden
		// state must not influence the decoded value
		if b.RawKnown && !m.Inf && !b.ZIsOne {
			if even, odd, ok := ref.LiftX(b.X); ok {
				for _, tgt := range []ref.Point{even, odd} {
					r := e.Copy()
					if derr := r.Decode(ref.Compress(tgt)); derr != nil {
						return gen.Fail("Decode(Encode)/receiver-state", "valid encoding %x rejected by a receiver holding %s: %v", ref.Compress(tgt), m, derr)
					}
					if !bytes.Equal(r.EncodeUncompressed(), ref.Uncompressed(tgt)) || r.Equal(e) == 1 {
						return gen.Fail("Decode(Encode)/receiver-state", "decoding %x into a receiver with raw X equal to that abscissa gives %x", ref.Compress(tgt), r.EncodeUncompressed())
					}
				}
				o.Class("decode-onto-raw-x")
			}
		}
		// a second representation of the same element encodes to the same bytes
		b2, err := pt.Build(pt.Spec{Base: c.P.Base, Steps: c.Steps2})
		if err == nil && b2.Consistent() {
			if !bytes.Equal(b2.E.Encode(), enc) || !bytes.Equal(b2.E.EncodeUncompressed(), unc) {
				return gen.Fail("Encode/representation-dependent", "two representations of %s encode differently: %x vs %x", m, b2.E.Encode(), enc)
			}
		}
		return nil
	},
})

func TestC04Encodings(t *testing.T) { c04.Execute(t) }
