package wb

import (
	"bytes"
	"testing"

	"github.com/bytemare/secp256k1"
	"github.com/bytemare/secp256k1/verifharness/gen"
	"github.com/bytemare/secp256k1/verifharness/pt"
	"github.com/bytemare/secp256k1/verifharness/ref"
	"pgregory.net/rapid"
)

// C02: Add / Subtract / Double / Negate implement the group law with no exceptional operands.

type caseC02 struct {
	P     pt.Spec `json:"p"`
	Q     pt.Spec `json:"q"`
	Op    string  `json:"op"`              // add | sub | double | negate
	Rel   string  `json:"rel"`             // how Q relates to P
	Alias string  `json:"alias,omitempty"` // "" | self (argument is the receiver) | copy
	Nil   bool    `json:"nil,omitempty"`
	Aim   *Aim    `json:"aim,omitempty"` // white-box: drive one intermediate of the formula to a chosen value
	// ArgHist > 0 (add/sub with a distinct argument object): the SAME argument object was passed to the same function before, on
	// another receiver, while it held a related value, and was then changed in place to the value under test: 1 it held -Q and
	// was negated in place (x and z identical); 2 it held Q+G and G was subtracted; 3 it held Q, was overwritten by Set(-Q),
	// passed again and negated; 4 it was passed, then a Go VALUE COPY of it (`cp := *arg`) was negated; 5 it was passed, and a value
	// copy that was negated twice is the argument. What a function remembers about an argument object must not outlive the
	// object's value, and must not be shared with struct copies.
	ArgHist int `json:"arg_hist,omitempty"`
}

var c02rels = []string{"independent", "equal", "negation", "p-identity", "q-identity", "both-identity", "double-of", "neg-double-of", "share-y", "neg-share-y", "self", "nil"}

func relatedBase(t *rapid.T, a pt.Base, rel string) pt.Base {
	b := a
	switch rel {
	case "negation":
		b.Neg = !a.Neg
	case "share-y":
		b.Endo = (a.Endo + rapid.IntRange(1, 2).Draw(t, "e")) % 3
	case "neg-share-y": // Q = -phi(P): y2 = -y1 and x2 = beta x1 (numerator and denominator of a unified slope vanish together)
		b.Endo = (a.Endo + rapid.IntRange(1, 2).Draw(t, "e")) % 3
		b.Neg = !a.Neg
	}
	return b
}

var c02 = gen.Register(&gen.Check[caseC02]{
	Name: "C02/grouplaw",
	Gen: func(t *rapid.T) caseC02 {
		c := caseC02{Op: rapid.SampledFrom([]string{"add", "add", "sub", "sub", "double", "negate"}).Draw(t, "op")}
		c.Rel = rapid.SampledFrom(c02rels).Draw(t, "rel")
		a := nonIdentityBase(t)
		b := a
		switch c.Rel {
		case "independent":
			b = pt.BaseGen().Draw(t, "b")
		case "equal":
		case "negation", "share-y", "neg-share-y":
			b = relatedBase(t, a, c.Rel)
		case "p-identity":
			a, b = pt.Base{Kind: "id"}, pt.BaseGen().Draw(t, "b")
		case "q-identity":
			b = pt.Base{Kind: "id"}
		case "both-identity":
			a, b = pt.Base{Kind: "id"}, pt.Base{Kind: "id"}
		case "double-of", "neg-double-of":
			// Q = +-2P through kg bases: P = kG, Q = 2kG
			k := rapid.IntRange(1, 10).Draw(t, "k")
			a = pt.Base{Kind: "kg", K: k}
			if k == 1 {
				a = pt.Base{Kind: "g"}
			}
			b = pt.Base{Kind: "kg", K: 2 * k, Neg: c.Rel == "neg-double-of"}
		case "self":
			c.Alias = "self"
			if rapid.IntRange(0, 4).Draw(t, "selfid") == 0 {
				a = pt.Base{Kind: "id"}
			}
		case "nil":
			c.Nil = true
		}
		if c.Alias == "" && rapid.IntRange(0, 5).Draw(t, "cp") == 0 {
			c.Alias = "copy"
		}
		for _, bb := range []*pt.Base{&a, &b} {
			if bb.Kind == "id" {
				bb.Via = rapid.SampledFrom([]string{"coords", "comp", "mulnil"}).Draw(t, "idVia")
				bb.ZeroRecv = gen.Chance(t, "zeroRecvId", 1, 3)
			}
		}
		c.P = pt.WithSteps(t, a, 3, false)
		c.Q = pt.WithSteps(t, b, 3, false)
		if c.Alias != "self" && !c.Nil && gen.Chance(t, "aim", 1, 3) {
			switch c.Op {
			case "add", "sub":
				c.Aim = AimGen(numAddIntermediates).Draw(t, "aim")
			case "double":
				c.Aim = AimGen(numDoubleIntermediates).Draw(t, "aim")
			}
		}
		if gen.Chance(t, "argHist", 1, 4) {
			c.ArgHist = 1 + gen.Pick(t, "argHistKind", 5)
		}
		return c
	},
	Fixed: func() []caseC02 {
		g := pt.Spec{Base: pt.Base{Kind: "g"}}
		gz := pt.Spec{Base: pt.Base{Kind: "g"}, Steps: []pt.Step{{Op: "dblsub"}}}
		ng := pt.Spec{Base: pt.Base{Kind: "g", Neg: true}}
		ngz := pt.Spec{Base: pt.Base{Kind: "g", Neg: true}, Steps: []pt.Step{{Op: "addsub", J: 3}}}
		id := idSpec()
		idm := idSpec(pt.Step{Op: "id:o-o"})
		idy := idSpec(pt.Step{Op: "id:p-p", J: 1})
		idw := idSpec(pt.Step{Op: "id:wb", A: "0b"})
		var out []caseC02
		for _, op := range []string{"add", "sub"} {
			for _, pq := range [][2]pt.Spec{{g, g}, {g, gz}, {gz, g}, {g, ng}, {gz, ngz}, {g, ngz}, {g, id}, {id, g}, {id, id}, {idm, gz}, {gz, idy}, {idy, idm}, {idw, g}, {g, idw}, {idw, idy}} {
				out = append(out, caseC02{P: pq[0], Q: pq[1], Op: op, Rel: "fixed"})
			}
			for h := 1; h <= 5; h++ {
				out = append(out, caseC02{P: g, Q: gz, Op: op, Rel: "fixed", ArgHist: h}, caseC02{P: gz, Q: ng, Op: op, Rel: "fixed", ArgHist: h}, caseC02{P: id, Q: g, Op: op, Rel: "fixed", ArgHist: h})
			}
			out = append(out, caseC02{P: gz, Q: gz, Op: op, Rel: "self", Alias: "self"}, caseC02{P: idy, Q: idy, Op: op, Rel: "self", Alias: "self"},
				caseC02{P: gz, Q: g, Op: op, Rel: "nil", Nil: true})
		}
		for _, op := range []string{"double", "negate"} {
			for _, p := range []pt.Spec{g, gz, id, idm, idy, idw} {
				out = append(out, caseC02{P: p, Q: p, Op: op, Rel: "fixed"})
			}
		}
		return out
	},
	Required: []string{"aimed-intermediate", "rel:independent", "rel:equal", "rel:negation", "rel:p-identity", "rel:q-identity", "rel:both-identity", "rel:self", "rel:nil", "rel:share-y", "rel:neg-share-y", "rel:double-of", "result:identity"},
	Run: func(c caseC02, o *gen.Obs) error {
		hostileCaller()
		p, err := pt.Build(c.P)
		if err != nil {
			o.Class("skipped:builder-error")
			return nil
		}
		q, err := pt.Build(c.Q)
		if err != nil {
			o.Class("skipped:builder-error")
			return nil
		}
		if (p.RawKnown && !p.RawValid) || (q.RawKnown && !q.RawValid) {
			o.Class("skipped:operand-invalid")
			return nil
		}
		if c.Aim != nil && pt.Calibrated() && p.RawKnown && q.RawKnown {
			// re-scale one operand so that the chosen intermediate of the formula equals tau (the value of the operand
			// as a group element is unchanged)
			tau := c.Aim.value()
			switch c.Op {
			case "add", "sub":
				if iv := addIntermediates(p, q, c.Op == "sub")[c.Aim.I%numAddIntermediates]; iv.Sign() != 0 && tau.Sign() != 0 {
					q = rescaleTo(q, ref.FMul(tau, ref.FInv0(iv)))
					o.Class("aimed-intermediate")
				}
			case "double":
				if iv := doubleIntermediates(p)[c.Aim.I%numDoubleIntermediates]; iv.Sign() != 0 && tau.Sign() != 0 {
					if l2 := ref.FMul(tau, ref.FInv0(iv)); ref.IsSquare(l2) {
						p = rescaleTo(p, ref.Sqrt(l2))
						o.Class("aimed-intermediate")
					}
				}
			}
		}
		o.Class("rel:" + c.Rel)
		o.Class("op:" + c.Op)
		classify(o, "p", p)
		classify(o, "q", q)
		o.ClassIf(pt.Calibrated(), "white-box")
		mp, mq := p.Model, q.Model
		arg, marg := q.E, mq
		switch c.Alias {
		case "self":
			arg, marg = p.E, mp
			o.Class("alias:self")
		case "copy":
			arg = q.E.Copy()
			o.Class("alias:copy")
		}
		if c.Nil {
			arg = nil
		}
		if c.ArgHist > 0 && arg != nil && arg != p.E && (c.Op == "add" || c.Op == "sub") && (c.Aim == nil || c.ArgHist != 2) {
			o.Class("argument-object-changed-in-place")
			other := secp256k1.Base().Double()
			call := func() {
				if c.Op == "add" {
					other.Add(arg)
				} else {
					other.Subtract(arg)
				}
			}
			switch c.ArgHist {
			case 1:
				arg.Negate()
				call()
				arg.Negate()
			case 2:
				g := secp256k1.Base()
				arg.Add(g)
				call()
				arg.Subtract(g)
			case 4:
				call()
				cp := *arg
				cp.Negate()
			case 5:
				call()
				cp := *arg
				cp.Negate()
				call()
				cp.Negate()
				arg = &cp
			default:
				call()
				neg := arg.Copy().Negate()
				arg.Set(neg)
				call()
				arg.Negate()
			}
		}
		argEnc := ref.Compress(marg)
		var (
			got  *secp256k1.Element
			want ref.Point
		)
		switch c.Op {
		case "add":
			got = p.E.Add(arg)
			want = ref.Add(mp, marg)
			if c.Nil {
				want = mp
			}
		case "sub":
			got = p.E.Subtract(arg)
			want = ref.Sub(mp, marg)
			if c.Nil {
				want = mp
			}
		case "double":
			got = p.E.Double()
			want = ref.Double(mp)
		case "negate":
			got = p.E.Negate()
			want = ref.Neg(mp)
		default:
			panic("op")
		}
		o.ClassIf(want.Inf, "result:identity")
		trivial := c.Rel == "independent" && p.RawKnown && p.ZIsOne && q.ZIsOne && !mp.Inf && !mq.Inf
		o.NonTrivialIf(!trivial)
		if got != p.E {
			return gen.Fail(c.Op+"/return", "did not return the receiver")
		}
		site := c.Op
		if e := checkElement(site, p.E, want); e != nil {
			return gen.Fail(site, "%s of P=%s [%x:%x:%x] Q=%s [%x:%x:%x] (rel %s, alias %q, nil %v): %v", c.Op, mp, p.X, p.Y, p.Z, mq, q.X, q.Y, q.Z, c.Rel, c.Alias, c.Nil, e)
		}
		// the argument keeps its value
		if (c.Op == "add" || c.Op == "sub") && !c.Nil && c.Alias != "self" {
			if after := pt.Inspect(arg, marg); (after.RawKnown && (!after.RawValid || !after.Model.Equal(marg))) || !bytes.Equal(arg.Encode(), argEnc) {
				return gen.Fail(c.Op+"/mutates-argument", "%s changed its argument from %s to %s", c.Op, marg, after.Model)
			}
		}
		return nil
	},
})

func TestC02GroupLaw(t *testing.T) {
	if !pt.Calibrated() {
		// API-only build (or a tree whose coordinates are not homogeneous projective): the white-box classes cannot occur
		c02.Required = without(c02.Required, "aimed-intermediate")
	}
	c02.Execute(t)
}
