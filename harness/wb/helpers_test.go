// Package wb holds the checks that quantify over internal projective representations (C01, C02, C04,
// C05). It is normally built with the accessor overlay (tag verif_access); without it the same checks
// run with representations diversified through the public API only.
package wb

import (
	"bytes"
	"math/big"
	"testing"

	"github.com/bytemare/secp256k1"
	"github.com/bytemare/secp256k1/verifharness/gen"
	"github.com/bytemare/secp256k1/verifharness/pt"
	"github.com/bytemare/secp256k1/verifharness/ref"
	"pgregory.net/rapid"
)

func TestMain(m *testing.M) { gen.Main(m) }

// TestReplay replays $VERIF_REPLAY.
func TestReplay(t *testing.T) { gen.ReplayMain(t) }

var bigOne = big.NewInt(1)

// classify adds the representation classes of a built element.
func classify(o *gen.Obs, who string, b *pt.Built) {
	if b.Model.Inf {
		o.Class(who + ":identity")
		if b.RawKnown && !b.StdIdent {
			o.Class(who + ":identity-nonstandard")
		}
		return
	}
	if b.RawKnown && !b.ZIsOne {
		o.Class(who + ":z!=1")
	}
}

// skipIfInconsistent reports whether the representation builder produced something other than the
// specified value; such cases are counted and skipped (the defect belongs to the property of the
// operation used by the recipe, not to the property under test).
func skipIfInconsistent(o *gen.Obs, bs ...*pt.Built) bool {
	for _, b := range bs {
		if !b.Consistent() {
			o.Class("skipped:builder-inconsistent")
			return true
		}
	}
	return false
}

// checkElement asserts that e is a valid representation of want and encodes to want's SEC1 bytes.
func checkElement(site string, e *secp256k1.Element, want ref.Point) error {
	b := pt.Inspect(e, want)
	if b.RawKnown {
		if !b.RawValid {
			return gen.Fail(site+"/invalid-point", "raw coordinates (%x : %x : %x) are not a point of the curve", b.X, b.Y, b.Z)
		}
		if !b.Model.Equal(want) {
			return gen.Fail(site+"/value", "coordinates denote %s, want %s", b.Model, want)
		}
	}
	if enc := e.Encode(); !bytes.Equal(enc, ref.Compress(want)) {
		return gen.Fail(site+"/value-encoded", "Encode = %x, want %x", enc, ref.Compress(want))
	}
	if e.IsIdentity() != want.Inf {
		return gen.Fail(site+"/is-identity", "IsIdentity = %v for %s", e.IsIdentity(), want)
	}
	return nil
}

func mkScalar(v *big.Int) *secp256k1.Scalar {
	s := secp256k1.NewScalar()
	if err := s.Decode(ref.Bytes32(v)); err != nil {
		panic("harness: canonical scalar rejected: " + err.Error())
	}
	return s
}

var _ = rapid.Bool

// mkScalarHist returns a scalar holding v; with hist > 0 the object held another value before, was used in a
// multiplication, and received v through one of several mutators.
func mkScalarHist(v *big.Int, hist int) *secp256k1.Scalar {
	fresh := mkScalar(v)
	if hist <= 0 {
		return fresh
	}
	used := secp256k1.NewScalar().SetUInt64(0xdeadbeef)
	_ = used.Bits()
	secp256k1.Base().Multiply(used)
	switch (hist - 1) % 6 {
	case 0:
		used.Set(fresh)
	case 1:
		_ = used.Decode(fresh.Encode())
	case 2:
		_ = used.CSelect(1, used, fresh)
	case 3:
		_ = used.CSelect(0, fresh, used)
	case 4:
		used.Zero().Add(fresh)
	default:
		used.One().Multiply(fresh)
	}
	return used
}

var (
	rPw    = new(big.Int).Mod(new(big.Int).Lsh(big.NewInt(1), 256), ref.P)
	rPwInv = new(big.Int).ModInverse(rPw, ref.P)
)

// Aim asks for one intermediate value of a formula (index I into the list the check documents) to take the value
// Tau, by re-scaling one operand's projective representation. Mont: Tau is given as Montgomery limbs (the stored
// form of the intermediate takes that bit pattern).
type Aim struct {
	I    int    `json:"i"`
	Tau  string `json:"tau"`
	Mont bool   `json:"mont,omitempty"`
}

func (a *Aim) value() *big.Int {
	v := new(big.Int).Mod(gen.B(a.Tau), ref.P)
	if a.Mont {
		v.Mod(v.Mul(v, rPwInv), ref.P)
	}
	return v
}

// AimGen draws an aim with n possible intermediates.
func AimGen(n int) *rapid.Generator[*Aim] {
	return rapid.Custom(func(t *rapid.T) *Aim {
		return &Aim{I: rapid.IntRange(0, n-1).Draw(t, "aimI"), Tau: gen.H(gen.NonZeroInt(ref.P).Draw(t, "aimTau")), Mont: rapid.IntRange(0, 2).Draw(t, "aimMont") > 0}
	})
}

// rescaleTo multiplies the raw coordinates of b by lambda (white-box) and returns the re-inspected element.
func rescaleTo(b *pt.Built, lambda *big.Int) *pt.Built {
	pt.SetRaw(b.E, ref.FMul(b.X, lambda), ref.FMul(b.Y, lambda), ref.FMul(b.Z, lambda))
	return pt.Inspect(b.E, b.Want)
}

// addIntermediates lists named intermediates of the complete addition of (X1:Y1:Z1) and (X2:Y2:Z2); each is linear
// in the scaling of either operand.
func addIntermediates(p, q *pt.Built, negateQ bool) []*big.Int {
	y2 := q.Y
	if negateQ {
		y2 = ref.FNeg(q.Y)
	}
	b3 := big.NewInt(21)
	x1x2, y1y2, z1z2 := ref.FMul(p.X, q.X), ref.FMul(p.Y, y2), ref.FMul(p.Z, q.Z)
	return []*big.Int{
		x1x2, y1y2, z1z2,
		ref.FAdd(ref.FMul(p.X, y2), ref.FMul(q.X, p.Y)),
		ref.FAdd(ref.FMul(p.Y, q.Z), ref.FMul(y2, p.Z)),
		ref.FAdd(ref.FMul(p.X, q.Z), ref.FMul(q.X, p.Z)),
		ref.FAdd(y1y2, ref.FMul(b3, z1z2)),
		ref.FSub(y1y2, ref.FMul(b3, z1z2)),
		ref.FMul(big.NewInt(3), x1x2),
		ref.FMul(b3, ref.FAdd(ref.FMul(p.X, q.Z), ref.FMul(q.X, p.Z))),
	}
}

const numAddIntermediates = 10

// doubleIntermediates lists named intermediates of the complete doubling; each is quadratic in the scaling.
func doubleIntermediates(p *pt.Built) []*big.Int {
	y2, z2 := ref.FMul(p.Y, p.Y), ref.FMul(p.Z, p.Z)
	return []*big.Int{
		y2, z2, ref.FMul(p.Y, p.Z), ref.FMul(p.X, p.Y), ref.FMul(big.NewInt(21), z2),
		ref.FAdd(y2, ref.FMul(big.NewInt(21), z2)), ref.FSub(y2, ref.FMul(big.NewInt(63), z2)), ref.FMul(big.NewInt(8), y2),
	}
}

const numDoubleIntermediates = 8

func without(l []string, drop string) []string {
	var out []string
	for _, x := range l {
		if x != drop {
			out = append(out, x)
		}
	}
	return out
}

// hostileCaller overwrites byte slices the API handed out earlier (encodings of the identity and of G, Order):
// returned slices are the caller's, so this must never influence a later call.
func hostileCaller() {
	pt.RecoveredPanics()
	if msg := pt.ProbeNewAPI(8); msg != "" {
		panic("a function the tree added to the API breaks an invariant: " + msg)
	}
	for _, b := range [][]byte{secp256k1.NewElement().Encode(), secp256k1.NewElement().EncodeUncompressed(), secp256k1.Base().Encode(),
		secp256k1.Base().EncodeUncompressed(), secp256k1.NewElement().XCoordinate(), secp256k1.Order()} {
		b = b[:cap(b)]
		for i := range b {
			b[i] ^= 0xa5
		}
	}
}
