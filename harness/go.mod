module github.com/bytemare/secp256k1/verifharness

go 1.23

toolchain go1.23.5

require (
	github.com/bytemare/secp256k1 v0.0.0
	pgregory.net/rapid v1.3.0
)

replace github.com/bytemare/secp256k1 => /repo
