// Package widepkg holds the internal-layer half of C09: the 48-byte wide reduction of internal/scalar on chosen
// expander outputs and (white-box) the expander itself.
package widepkg

import (
	"math/big"
	"testing"

	"github.com/bytemare/secp256k1/verifharness/gen"
	"github.com/bytemare/secp256k1/verifharness/ref"
)

func TestMain(m *testing.M) { gen.Main(m) }

// TestReplay replays $VERIF_REPLAY.
func TestReplay(t *testing.T) { gen.ReplayMain(t) }

var (
	bigOne = big.NewInt(1)
	rN     = new(big.Int).Mod(new(big.Int).Lsh(bigOne, 256), ref.N)
	rNInv  = new(big.Int).ModInverse(rN, ref.N)
)
