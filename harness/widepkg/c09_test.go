package widepkg

import (
	"bytes"
	"encoding/hex"
	"math/big"
	"testing"

	"github.com/bytemare/secp256k1/internal/scalar"
	"github.com/bytemare/secp256k1/verifharness/gen"
	"github.com/bytemare/secp256k1/verifharness/pt"
	"github.com/bytemare/secp256k1/verifharness/ref"
	"pgregory.net/rapid"
)

// C09 (reduction half): the 48-byte wide reduction over the scalar field returns OS2IP(input) mod n for
// all 2^384 expander outputs; (expander half, white-box) expand_message_xmd for the two lengths the
// package requests.

type caseC09wide struct {
	Data string `json:"data"`
}

var c09wide = gen.Register(&gen.Check[caseC09wide]{
	Name: "C09/widereduce",
	Gen: func(t *rapid.T) caseC09wide {
		return caseC09wide{Data: hex.EncodeToString(gen.Wide48(t, ref.N))}
	},
	Fixed: func() []caseC09wide {
		ff := bytes.Repeat([]byte{0xff}, 48)
		lo := append(make([]byte, 24), bytes.Repeat([]byte{0xff}, 24)...)
		hi := append(bytes.Repeat([]byte{0xff}, 24), make([]byte, 24)...)
		n48 := make([]byte, 48)
		ref.N.FillBytes(n48)
		nm := make([]byte, 48)
		new(big.Int).Sub(ref.N, bigOne).FillBytes(nm)
		var out []caseC09wide
		for _, b := range [][]byte{ff, lo, hi, n48, nm, make([]byte, 48)} {
			out = append(out, caseC09wide{Data: hex.EncodeToString(b)})
		}
		return out
	},
	Required: []string{"wide:>=n", "wide:high-half-nonzero", "wide:multiple-of-n"},
	Run: func(c caseC09wide, o *gen.Obs) error {
		data := gen.HexBytes(c.Data)
		v := ref.OS2IP(data)
		want := new(big.Int).Mod(v, ref.N)
		o.ClassIf(v.Cmp(ref.N) >= 0, "wide:>=n")
		o.ClassIf(v.BitLen() > 192, "wide:high-half-nonzero")
		o.ClassIf(want.Sign() == 0 && v.Sign() != 0, "wide:multiple-of-n")
		o.NonTrivialIf(v.BitLen() > 192 && v.Cmp(ref.N) >= 0)
		var out scalar.MontgomeryDomainFieldElement
		out[0], out[3] = 77, 1 // prior content must not matter
		scalar.HashToFieldElement(&out, [48]byte(data))
		m := gen.FromLimbs([4]uint64(out))
		if m.Cmp(ref.N) >= 0 {
			return gen.Fail("scalar.HashToFieldElement/non-canonical", "limbs %v not < n for input %x", out, data)
		}
		got := m.Mod(m.Mul(m, rNInv), ref.N)
		if got.Cmp(want) != 0 {
			return gen.Fail("scalar.HashToFieldElement/value", "input %x: got %x, want %x", data, got, want)
		}
		return nil
	},
})

func TestC09WideReduce(t *testing.T) { c09wide.Execute(t) }

type caseC09xmd struct {
	Msg string `json:"msg"`
	Dst string `json:"dst"`
	Len uint   `json:"len"`
}

var c09xmd = gen.Register(&gen.Check[caseC09xmd]{
	Name:   "C09/expander",
	Weight: 0.25,
	Gen: func(t *rapid.T) caseC09xmd {
		msg := gen.Bytes(0, 200).Draw(t, "msg")
		var dst []byte
		if n := rapid.SampledFrom([]int{0, 16, 255, 256, 257, 1, 300}).Draw(t, "dlen"); n > 0 {
			dst = rapid.SliceOfN(rapid.Byte(), n, n).Draw(t, "dst")
		} else {
			dst = gen.Bytes(1, 300).Draw(t, "dst")
		}
		return caseC09xmd{Msg: hex.EncodeToString(msg), Dst: hex.EncodeToString(dst), Len: rapid.SampledFrom([]uint{48, 96}).Draw(t, "len")}
	},
	Run: func(c caseC09xmd, o *gen.Obs) error {
		msg, dst := gen.HexBytes(c.Msg), gen.HexBytes(c.Dst)
		got, ok := pt.ExpandXMD(msg, dst, c.Len)
		if !ok {
			o.Class("skipped:api-only")
			return nil
		}
		o.NonTrivial()
		o.ClassIf(len(dst) > 255, "dst>255")
		o.Class("len=%d", c.Len)
		if want := ref.XMD(msg, dst, int(c.Len)); !bytes.Equal(got, want) {
			return gen.Fail("expandXMD", "expandXMD(msg=%x, dst[%d], %d) = %x, want %x", msg, len(dst), c.Len, got, want)
		}
		return nil
	},
})

func TestC09Expander(t *testing.T) { c09xmd.Execute(t) }
