// Command instrument writes AST-instrumented copies of every non-test Go file under <repo>/internal/ into
// an output directory, inserting a call veriftrace.Hit(<id>) as the first statement of every function
// body, plus the tiny veriftrace package itself, and an overlay JSON for `go build -overlay`. Nothing under
// <repo> is modified. Used by the C19 check (DESIGN.md section 3.1).
package main

import (
	"encoding/json"
	"flag"
	"fmt"
	"go/ast"
	"go/parser"
	"go/printer"
	"go/token"
	"os"
	"path/filepath"
	"sort"
	"strconv"
	"strings"
)

const tracePkg = "github.com/bytemare/secp256k1/internal/veriftrace"

const traceSrc = `// Package veriftrace exists only in verification builds (added through go build -overlay).
package veriftrace

// Hook receives the id of every instrumented function entered while it is non-nil.
var Hook func(id uint32)

// Hit is called at the entry of every instrumented function.
func Hit(id uint32) {
	if h := Hook; h != nil {
		h(id)
	}
}
`

func main() {
	repo := flag.String("repo", "/repo", "tree to instrument")
	out := flag.String("out", "", "output directory")
	overlay := flag.String("overlay", "", "overlay json to write")
	flag.Parse()
	if *out == "" || *overlay == "" {
		fmt.Fprintln(os.Stderr, "usage: instrument -repo R -out D -overlay F")
		os.Exit(2)
	}
	replace := map[string]string{}
	names := map[string]string{}
	var files []string
	root := filepath.Join(*repo, "internal")
	err := filepath.Walk(root, func(p string, info os.FileInfo, err error) error {
		if err != nil {
			return err
		}
		if !info.IsDir() && strings.HasSuffix(p, ".go") && !strings.HasSuffix(p, "_test.go") {
			files = append(files, p)
		}
		return nil
	})
	if err != nil {
		fatal(err)
	}
	sort.Strings(files)
	id := uint32(0)
	for n, p := range files {
		fset := token.NewFileSet()
		f, err := parser.ParseFile(fset, p, nil, parser.ParseComments)
		if err != nil {
			fatal(err)
		}
		if f.Name.Name == "veriftrace" {
			continue
		}
		rel, _ := filepath.Rel(*repo, p)
		touched := false
		for _, d := range f.Decls {
			fd, ok := d.(*ast.FuncDecl)
			if !ok || fd.Body == nil {
				continue
			}
			id++
			fn := fd.Name.Name
			if fd.Recv != nil && len(fd.Recv.List) > 0 {
				fn = exprString(fd.Recv.List[0].Type) + "." + fn
			}
			names[strconv.Itoa(int(id))] = filepath.Dir(rel) + ":" + fn
			call := &ast.ExprStmt{X: &ast.CallExpr{
				Fun:  &ast.SelectorExpr{X: ast.NewIdent("veriftrace"), Sel: ast.NewIdent("Hit")},
				Args: []ast.Expr{&ast.BasicLit{Kind: token.INT, Value: strconv.Itoa(int(id))}},
			}}
			fd.Body.List = append([]ast.Stmt{call}, fd.Body.List...)
			touched = true
		}
		if !touched {
			continue
		}
		// add the import
		imp := &ast.GenDecl{Tok: token.IMPORT, Specs: []ast.Spec{&ast.ImportSpec{Path: &ast.BasicLit{Kind: token.STRING, Value: strconv.Quote(tracePkg)}}}}
		f.Decls = append([]ast.Decl{imp}, f.Decls...)
		dst := filepath.Join(*out, fmt.Sprintf("f%03d_%s", n, filepath.Base(p)))
		w, err := os.Create(dst)
		if err != nil {
			fatal(err)
		}
		if err := printer.Fprint(w, fset, f); err != nil {
			fatal(err)
		}
		w.Close()
		replace[p] = dst
	}
	tp := filepath.Join(*out, "veriftrace.go")
	if err := os.WriteFile(tp, []byte(traceSrc), 0o644); err != nil {
		fatal(err)
	}
	replace[filepath.Join(root, "veriftrace", "veriftrace.go")] = tp
	raw, _ := json.MarshalIndent(map[string]any{"Replace": replace}, "", " ")
	if err := os.WriteFile(*overlay, raw, 0o644); err != nil {
		fatal(err)
	}
	nm, _ := json.Marshal(names)
	_ = os.WriteFile(filepath.Join(*out, "ids.json"), nm, 0o644)
	fmt.Printf("instrumented %d functions in %d files\n", id, len(replace)-1)
}

func exprString(e ast.Expr) string {
	switch t := e.(type) {
	case *ast.StarExpr:
		return "*" + exprString(t.X)
	case *ast.Ident:
		return t.Name
	}
	return "?"
}

func fatal(err error) {
	fmt.Fprintln(os.Stderr, "instrument:", err)
	os.Exit(1)
}
