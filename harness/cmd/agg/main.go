// Command agg prints the number of distinct 64-bit hashes in the union of the given sorted hash files.
package main

import (
	"encoding/binary"
	"fmt"
	"os"
	"sort"
)

func main() {
	var all []uint64
	for _, p := range os.Args[1:] {
		raw, err := os.ReadFile(p)
		if err != nil {
			fmt.Fprintln(os.Stderr, err)
			os.Exit(2)
		}
		for i := 0; i+8 <= len(raw); i += 8 {
			all = append(all, binary.LittleEndian.Uint64(raw[i:]))
		}
	}
	sort.Slice(all, func(i, j int) bool { return all[i] < all[j] })
	n := 0
	for i, v := range all {
		if i == 0 || v != all[i-1] {
			n++
		}
	}
	fmt.Println(n)
}
