#!/bin/sh
# Offline setup: warm the Go build cache for the harness packages (no network is needed or used).
set -e
cd "$(dirname "$0")/harness"
export GOFLAGS=-mod=mod GOPROXY=off GOSUMDB=off GOTOOLCHAIN=local
tmp=$(mktemp -d)
cp go.mod "$tmp/h.mod"; cp go.sum "$tmp/h.sum"
go build -modfile "$tmp/h.mod" ./ref ./gen ./cmd/... 
go test -vet=off -modfile "$tmp/h.mod" -count=1 ./ref
go test -vet=off -modfile "$tmp/h.mod" -count=1 -run TestChecksumTwins ./gen
rm -rf "$tmp"
echo setup ok
